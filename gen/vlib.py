"""Orchestration library for /verif/bin/check: TLC runs, corpus crates, recording, trace validation,
evidence.  Nothing here decides a property: deciding is done by TLC evaluating the TLA+ modules."""
import concurrent.futures
import glob
import hashlib
import json
import os
import re
import shutil
import subprocess
import sys
import time

VERIF = os.path.dirname(os.path.dirname(os.path.abspath(__file__)))
SPEC = os.path.join(VERIF, "spec")
WORK = os.environ.get("VERIF_WORK", os.path.join(VERIF, "work"))
EVIDENCE = os.environ.get("VERIF_EVIDENCE_DIR", os.path.join(VERIF, "evidence"))
REPO = os.environ.get("BITBYBIT_REPO", "/repo")
sys.path.insert(0, os.path.join(VERIF, "gen"))
import rustgen  # noqa: E402

JOBS = int(os.environ.get("VERIF_JOBS", "16"))


class ToolError(Exception):
    pass


def log(*a):
    print("[check]", *a, flush=True)


def sh(cmd, env=None, cwd=None, timeout=None, check=False):
    e = dict(os.environ)
    e.update({"CARGO_NET_OFFLINE": "true", "RUST_BACKTRACE": "0"})
    if env:
        e.update(env)
    try:
        p = subprocess.run(cmd, env=e, cwd=cwd, stdout=subprocess.PIPE, stderr=subprocess.STDOUT, timeout=timeout)
    except subprocess.TimeoutExpired as ex:
        raise ToolError("timeout: %s" % " ".join(cmd)) from ex
    out = p.stdout.decode("utf-8", "replace")
    if check and p.returncode != 0:
        raise ToolError("command failed (%d): %s\n%s" % (p.returncode, " ".join(cmd), out[-4000:]))
    return p.returncode, out


# ------------------------------------------------------------------------------------------- TLC
_tlc_counter = [0]


def tlc(module, cfg, env=None, workers=1, timeout=900, extra=None, heap="2g", simulate=None):
    import uuid
    meta = os.path.join(WORK, "tlc", "%s-%d-%s" % (module, os.getpid(), uuid.uuid4().hex[:12]))
    os.makedirs(meta, exist_ok=True)
    # short single-worker runs (trace validation, generators): C1 only and 2 GC threads cut the CPU cost by 3x, which matters
    # because up to 16 of these JVMs run side by side
    jopts = "-Xss1g -Xmx%s -XX:ParallelGCThreads=%d" % (heap, 2 if workers == 1 else 4)
    if workers == 1 and not simulate:
        jopts += " -XX:TieredStopAtLevel=1"
    e = {"JAVA_TOOL_OPTIONS": jopts}
    if env:
        e.update(env)
    cmd = ["timeout", str(timeout), "tlc", "-workers", str(workers), "-metadir", meta, "-cleanup", "-noGenerateSpecTE",
           "-config", cfg]
    if simulate:
        cmd += ["-simulate"] + simulate
    if extra:
        cmd += extra
    cmd.append(module + ".tla")
    t0 = time.time()
    rc, out = sh(cmd, env=e, cwd=SPEC)
    shutil.rmtree(meta, ignore_errors=True)
    res = {"rc": rc, "out": out, "wall": time.time() - t0, "generated": 0, "distinct": 0}
    m = re.findall(r"(\d+) states generated, (\d+) distinct states found", out)
    if m:
        res["generated"], res["distinct"] = int(m[-1][0]), int(m[-1][1])
    if rc == 124:
        raise ToolError("TLC timeout on %s/%s" % (module, cfg))
    return res


def spec_hash():
    h = hashlib.sha256()
    for f in sorted(glob.glob(os.path.join(SPEC, "*.tla")) + glob.glob(os.path.join(SPEC, "*.cfg"))):
        h.update(open(f, "rb").read())
    return h.hexdigest()[:16]


def corpus(name, force=False):
    """Fixed corpora are TLA+ expressions (spec/Corpus.tla) evaluated and written to JSON by TLC."""
    d = os.path.join(WORK, "corpus")
    os.makedirs(d, exist_ok=True)
    path = os.path.join(d, "%s-%s.json" % (name, spec_hash()))
    if not os.path.exists(path) or force:
        r = tlc("Corpus", "Corpus.cfg", env={"CORPUS": name, "OUTFILE": path}, timeout=600)
        if r["rc"] != 0 or "INVALID" in r["out"] or not os.path.exists(path):
            raise ToolError("corpus generation failed for %s:\n%s" % (name, r["out"][-3000:]))
    return path, json.load(open(path))


def declgen(mode, num, depth, seed, consts, tag):
    """Seeded random declarations: spec/DeclGen.tla in TLC simulation mode, one JSON line per behaviour."""
    d = os.path.join(WORK, "corpus")
    os.makedirs(d, exist_ok=True)
    path = os.path.join(d, "gen-%s-%s-%d-%d-%d.json" % (tag, spec_hash(), num, depth, seed))
    if os.path.exists(path):
        return path, json.load(open(path))
    env = {"GEN_MODE": mode}
    env.update({k: str(v) for k, v in consts.items()})
    r = tlc("DeclGen", "DeclGen.cfg", env=env, simulate=["num=%d" % num], extra=["-depth", str(depth), "-seed", str(seed)], timeout=900)
    decls = []
    seen = set()
    for line in r["out"].splitlines():
        m = re.search(r'"DECL", "(.*)">>\s*$', line)
        if m:
            txt = m.group(1).encode().decode("unicode_escape") if "\\" in m.group(1) else m.group(1)
            if txt in seen:
                continue
            seen.add(txt)
            decls.append(json.loads(txt))
    if not decls:
        raise ToolError("DeclGen produced nothing:\n" + r["out"][-3000:])
    for k, dd in enumerate(decls):
        dd["id"] = k
    json.dump(decls, open(path, "w"))
    return path, decls


# ----------------------------------------------------------------------------------------- cargo
CARGO_CONFIG = """[net]
offline = true
[build]
target-dir = "../target"
"""


def ws_dir():
    d = os.path.join(WORK, "ws")
    os.makedirs(os.path.join(d, ".cargo"), exist_ok=True)
    cfg = os.path.join(d, ".cargo", "config.toml")
    if not os.path.exists(cfg) or open(cfg).read() != CARGO_CONFIG:
        open(cfg, "w").write(CARGO_CONFIG)
    return d


def crate_dir(name):
    return os.path.join(ws_dir(), name)


def write_if_changed(path, text):
    if os.path.exists(path) and open(path).read() == text:
        return False
    os.makedirs(os.path.dirname(path), exist_ok=True)
    open(path, "w").write(text)
    return True


def cargo_toml(name, lib=False, extra=""):
    return """[package]
name = "%s"
version = "0.0.0"
edition = "2021"
[workspace]
%s
[dependencies]
bitbybit = { path = "%s/bitbybit", features = ["verif_hooks"] }
arbitrary-int = "1.3.0"
[profile.dev]
debug = 0
incremental = false
[profile.release]
debug = 0
incremental = false
%s""" % (name, "[lib]\npath = \"src/lib.rs\"" if lib else "", REPO, extra)


def write_crate(name, main_rs, lib=False, with_rt=True, extra_files=None):
    d = crate_dir(name)
    write_if_changed(os.path.join(d, "Cargo.toml"), cargo_toml("c-" + name, lib))
    lock = os.path.join(d, "Cargo.lock")
    if not os.path.exists(lock):
        shutil.copy(os.path.join(VERIF, "harness", "Cargo.lock"), lock)
    write_if_changed(os.path.join(d, "src", "lib.rs" if lib else "main.rs"), main_rs)
    if with_rt:
        write_if_changed(os.path.join(d, "src", "rt.rs"), open(os.path.join(VERIF, "harness", "rt.rs")).read())
    for rel, text in (extra_files or {}).items():
        write_if_changed(os.path.join(d, rel), text)
    return d


def cargo_build(name, profile="dev", env=None, timeout=1800, rustflags=None):
    """Returns (ok, diagnostics) where diagnostics are rustc JSON messages of level error."""
    d = crate_dir(name)
    cmd = ["cargo", "build", "--offline", "--message-format=json", "-q"]
    if profile == "release":
        cmd.append("--release")
    e = dict(env or {})
    if rustflags:
        e["RUSTFLAGS"] = rustflags
    rc, out = sh(cmd, cwd=d, env=e, timeout=timeout)
    diags = []
    other = []
    for line in out.splitlines():
        if not line.startswith("{"):
            other.append(line)
            continue
        try:
            m = json.loads(line)
        except ValueError:
            other.append(line)
            continue
        if m.get("reason") == "compiler-message":
            msg = m["message"]
            if msg.get("level") in ("error", "error: internal compiler error"):
                spans = [s for s in msg.get("spans", []) if s.get("is_primary")] or msg.get("spans", [])
                diags.append({
                    "code": (msg.get("code") or {}).get("code", ""),
                    "message": msg.get("message", ""),
                    "file": spans[0]["file_name"] if spans else "",
                    "line": spans[0]["line_start"] if spans else 0,
                    "line_end": spans[0]["line_end"] if spans else 0,
                    "package": m.get("package_id", ""),
                    "rendered": msg.get("rendered", "")[:1500],
                })
    ok = rc == 0
    if not ok and not diags:
        raise ToolError("cargo build failed without diagnostics in %s:\n%s" % (d, "\n".join(other)[-3000:]))
    return ok, diags


def bin_path(name, profile="dev"):
    return os.path.join(WORK, "target", "release" if profile == "release" else "debug", "c-" + name)


def record(name, profile, mode, budget, seed, outdir, only=None, shard_bytes=1500000, timeout=1800):
    shutil.rmtree(outdir, ignore_errors=True)
    os.makedirs(outdir)
    env = {"TRACE_DIR": outdir, "DRV_MODE": mode, "DRV_BUDGET": str(budget), "VERIF_SEED": str(seed), "SHARD_BYTES": str(shard_bytes)}
    if only is not None:
        env["DRV_ONLY"] = str(only)
    rc, out = sh([bin_path(name, profile)], env=env, timeout=timeout)
    if rc != 0:
        raise ToolError("recorder %s failed rc=%d:\n%s" % (name, rc, out[-2000:]))
    m = re.search(r"EVENTS (\d+) SHARDS (\d+)", out)
    return int(m.group(1)), sorted(glob.glob(os.path.join(outdir, "trace-*.ndjson")))


# ------------------------------------------------------------------------------ trace validation
def validate_shard(args):
    module, cfg, shard, declfile, extra_env = args
    env = {"TRACEFILE": shard, "DECLFILE": declfile}
    env.update(extra_env or {})
    r = tlc(module, cfg, env=env, workers=1, timeout=1200, heap="1500m")
    res = {"shard": shard, "generated": r["generated"], "wall": r["wall"], "status": "accepted", "detail": ""}
    if r["rc"] == 0 and "Model checking completed. No error has been found." in r["out"]:
        return res
    m = re.search(r'<<"REJECTED", (\d+), "(.*)", (.*)>>\s*$', r["out"], re.M)
    if m:
        res["status"] = "rejected"
        res["line"] = int(m.group(1))
        res["state"] = m.group(3)
        return res
    res["status"] = "error"
    res["detail"] = r["out"][-3000:]
    return res


def validate_shard_retry(args):
    r = validate_shard(args)
    if r["status"] == "error":
        # a JVM that died for an external reason (memory pressure, ...) is retried once; a genuine TLC error repeats
        r = validate_shard(args)
    return r


def validate(shards, declfile, module="RegisterTrace", cfg="RegisterTrace.cfg", extra_env=None):
    jobs = [(module, cfg, s, declfile, extra_env) for s in shards]
    with concurrent.futures.ThreadPoolExecutor(max_workers=JOBS) as ex:
        results = list(ex.map(validate_shard_retry, jobs))
    for r in results:
        if r["status"] == "error":
            raise ToolError("TLC failed on %s:\n%s" % (r["shard"], r["detail"]))
    return results


def trace_stats(shards, nontrivial=None, max_samples=3):
    """Counts measured on the recorded events (for the evidence file)."""
    total = 0
    kinds = {}
    distinct = set()
    samples = []
    decl = None
    for s in shards:
        with open(s) as fh:
            for line in fh:
                total += 1
                ev = json.loads(line)
                k = ev["ev"]
                kinds[k] = kinds.get(k, 0) + 1
                if k == "reset":
                    decl = ev["decl"]
                    continue
                nt = False
                if k == "get":
                    nt = ev["res"]["k"] != "bits" or len(ev["res"]["v"]) > 0
                    key = (decl, k, ev["field"], ev["idx"], len(ev["res"]["v"]) > 0, ev["res"]["k"])
                elif k == "with":
                    nt = ev["src_raw"] != ev["dst_raw"] or ev["panic"]
                    key = (decl, k, ev["field"], ev["idx"], ev["panic"], nt)
                elif k == "set":
                    nt = True
                    key = (decl, k, ev["field"], ev["idx"], ev["panic"])
                elif k in ("new", "raw"):
                    nt = len(ev["res"]["v"]) > 0
                    key = (decl, k, len(ev["res"]["v"]))
                else:
                    nt = True
                    key = (decl, k)
                if nt:
                    distinct.add(key)
                    if len(samples) < max_samples and (nontrivial is None or k in nontrivial):
                        samples.append({"decl": decl, "event": ev})
    return {"events": total, "kinds": kinds, "distinct_nontrivial": len(distinct), "samples": samples}


def events_until(shard, line_no):
    """The events of one shard from the last reset up to (and including) line_no (1-based)."""
    evs = []
    with open(shard) as fh:
        for k, line in enumerate(fh, 1):
            ev = json.loads(line)
            if ev["ev"] == "reset":
                evs = []
            evs.append(ev)
            if k >= line_no:
                break
    return evs


# --------------------------------------------------------------------------------------- evidence
def write_evidence(pid, tier, seed, level, coverage, assumptions, wall, violations=0):
    os.makedirs(EVIDENCE, exist_ok=True)
    ev = {"property_id": pid, "tier": tier, "seed": seed, "level": level, "coverage": coverage,
          "assumptions": assumptions, "wall_s": round(wall, 2), "violations": violations}
    json.dump(ev, open(os.path.join(EVIDENCE, pid + ".json"), "w"), indent=1, sort_keys=True)


def known_findings():
    """known_findings.txt: lines `finding: property=<id> key=<key> ...` suppress exactly that key;
    `fixed: ...` lines suppress nothing."""
    path = os.path.join(VERIF, "known_findings.txt")
    out = []
    if os.path.exists(path):
        for line in open(path):
            line = line.strip()
            if line.startswith("finding:"):
                m = re.search(r"property=(\S+)\s+key=(\S+)\s*(.*)", line)
                if m:
                    out.append({"property": m.group(1), "key": m.group(2), "what": m.group(3)})
    return out


# field names a user may well choose and that a macro could mishandle: prefixes of the generated accessor names, leading
# underscores, names of identifiers the generated code uses itself, raw identifiers, upper case.  No name in the pool is
# "with_"/"set_" + another name of the pool, or the name of a generated inherent item (they would clash in any implementation).
NAME_POOL = ["set_point", "with_gain", "_reserved", "f", "fmt", "value", "index", "field_value", "temp", "raw", "result",
             "self_", "r#type", "other", "s", "EN", "TXIE", "x_", "__pad", "builder_", "zero", "mask", "bits",
             "effective_index", "extracted_bits", "set_", "with_", "r#fn", "new_", "a"]


def vary_names(decls, every=3, upper=True, raw=True, vis=True, hostile=True):
    """rename the fields of every `every`-th declaration (deterministic in the declaration's position): first the names of
    the generated code's own locals, each on a field of the layout kind whose accessor bodies declare that local, then the pool"""
    pool = [n for n in NAME_POOL if (upper or n.lower() == n) and (raw or not n.startswith("r#"))]
    for k, d in enumerate(decls):
        if "gram" in d:
            continue
        # the options of #[bitfield(base, ...)] in either order, with and without a trailing comma
        d.setdefault("args_rev", k % 2 == 1)
        d.setdefault("args_trailing", k % 4 >= 2)
        # every fourth declaration is produced by a macro_rules! expansion (rustgen.macro_wrapped; trace legs only)
        d.setdefault("wrap", "macro" if k % 4 == 1 else "")
        # the spelling of a declared default (Corpus!DefForms): literal in several radixes / with a type suffix, or a named constant
        if d.get("def") and d.get("defform", "lit") == "lit":
            d["defform"] = ["lit", "const", "dec", "hexsuf", "const", "bin_", "decsuf", "const", "hexsuf_", "oct"][k % 10]
        # arbitrary-int field types and Option spelled through a path (the macro looks at the last segment)
        for j, f in enumerate(d["fields"]):
            if f["kind"] == "uarb":
                f.setdefault("tyspell", ["", "arbitrary_int::", "::arbitrary_int::"][(k + j) % 3])
            f.setdefault("fvis", ["", "pub ", "", "pub(crate) ", "", "pub(self) ", ""][(k + 2 * j) % 7])
            if f["kind"] == "optenum":
                f.setdefault("optspell", ["", "::core::option::"][(k + j) % 2])
        # the struct itself named like a trait the macro derives / implements by name (a struct named `Default` or `Result`
        # breaks the current macro too and is not generated)
        if d.get("name") == "T" and k % 9 in (5, 7, 8):
            d["name"] = {5: "Clone", 7: "Copy", 8: "Debug"}[k % 9]
        # a named default whose constant is called like one of the macro's own items
        if d.get("def"):
            d.setdefault("defname", ["DEFVAL", "DEFAULT_RAW_VALUE", "ZERO", "RESET", "DEFAULT", "START"][k % 6])
        # restricted visibility of the struct (and its enums): still visible to the glue, which lives in a sibling module
        if vis:
            d.setdefault("vis", {1: "pub(crate) ", 3: "pub(super) ", 4: "pub(in crate) "}.get(k % 6, "pub "))
        # user items next to the declaration (rustgen.hostile_items)
        if hostile:
            d.setdefault("hostile", k % 2 == 0)
        for j, e in enumerate(d.get("enums", [])):
            e.setdefault("storage_path", (k + j) % 2 == 0)      # #[bitenum(::core::primitive::u8, ..)] for native widths
            e.setdefault("args_rev", (k + j) % 2 == 1)          # #[bitenum(exhaustive = .., uN)]
            e.setdefault("exh_colon", (k + j) % 5 == 2)         # legacy separator: #[bitenum(uN, exhaustive: ..)]
            e.setdefault("derive_default", (k + j) % 4 == 1)    # #[derive(Default)] + #[default] on a variant
            if (k + j) % 3 == 0 and e["variants"]:
                e["variants"][-1].setdefault("attrs", ["#[cfg_attr(all(), doc = \"documented through cfg_attr\")]", "#[allow(dead_code)]"])
        if k % every != 0:
            continue
        used = set()
        rot = k // every
        for j, f in enumerate(d["fields"]):
            hazards = []
            if f["array"] and not f["list"]:
                hazards = ["effective_index", "index"]
            elif f["array"] and f["list"]:
                hazards = (["MASK"] if upper else []) + ["temp", "index"]
            elif f["list"]:
                hazards = (["CLEAR_MASK"] if upper else []) + ["temp"]
            else:
                hazards = ["field_value", "extracted_bits"] if (rot + j) % 4 == 0 else []
            nm = next((h for h in hazards if h not in used), None)
            if nm is None:
                nm = next((pool[(rot + j + t) % len(pool)] for t in range(len(pool)) if pool[(rot + j + t) % len(pool)] not in used), None)
            if nm is None:
                continue
            used.add(nm)
            f["name"] = nm
        # a hostile constant only matters next to an upper-case field name (datasheet style, `TXEN` next to `const TXEN`):
        # make sure the renamed declarations that get hostile items have one, on a writable field if there is one
        if upper and d.get("hostile") and d["fields"] and not any(f["name"].upper() == f["name"] and f["name"].lower() != f["name"] for f in d["fields"]):
            cand = [f for f in d["fields"] if f["access"] in ("w", "rw")] or d["fields"]
            cand[-1]["name"] = "TXEN"
    return decls
