#!/usr/bin/env python3
"""Regenerates /verif/MANIFEST.json from the table below (kept in one place so it is always valid)."""
import json
import os

VERIF = os.path.dirname(os.path.dirname(os.path.abspath(__file__)))
props = [json.loads(l) for l in open(os.path.join(VERIF, "properties.jsonl"))]

TRUSTED = ("TLC evaluates the TLA+ modules; rustc/cargo build and run the corpus generated from TLC-enumerated declarations with "
           "the real macro from /repo's working tree; glue is mechanical forwarding (gen/rustgen.py). Programs are enumerated, not proved over.")

CHECKS = {
    "C01": dict(text="Register.tla (GetExact/GetArith, exhaustive TLC on model declarations) + every recorded getter call of the real "
                     "generated code on Q-star (22 bases x boundary widths x boundary positions x types) validated by TLC against "
                     "RegisterTrace.tla; exhaustive raw tables for 8-bit storage.",
                technique="TLA+ spec + TLC model checking; trace validation of recorded getter calls against the spec", ref="6/C01"),
}

NOT_YET = "check under construction in this round (pipeline exists for C01; being generalised)"

m = {
    "version": 1,
    "setup_cmd": "bin/setup",
    "hooks": {
        "guard": "cargo feature verif_hooks on crate bitbybit (default off)",
        "enable": "harness crates under /verif/work/ws depend on bitbybit by path with features=[\"verif_hooks\"]; the expansion dump "
                  "is active only when BITBYBIT_VERIF_DUMP_DIR is set",
        "baseline_off_cmd": "cd /repo && cargo test --workspace --no-fail-fast --offline",
        "source_commits": ["30de4ff"],
        "add_only": True,
    },
    "engines": [
        {"name": "tlc-register", "path": "spec/", "serves_properties": sorted(CHECKS),
         "kind_free_text": "explicit TLA+ specification checked by TLC; conformance by trace validation (impl->spec) and replay (spec->impl)"},
    ],
    "checks": [],
    "not_applicable": [],
    "notes": "All checks: bin/check <id> --tier quick|thorough; VERIF_SEED honoured; BITBYBIT_REPO overrides the tree under test (default /repo).",
}
for p in props:
    pid = p["id"]
    if pid in CHECKS:
        c = CHECKS[pid]
        m["checks"].append({
            "property_id": pid,
            "quick_cmd": "bin/check %s --tier quick" % pid,
            "thorough_cmd": "bin/check %s --tier thorough" % pid,
            "evidence_file": "evidence/%s.json" % pid,
            "replay_cmd_template": "bin/check %s --replay {path}" % pid,
            "engine": "tlc-register",
            "level_claimed": {"category": c.get("category", "model_checking"), "text": c["text"], "design_ref": "DESIGN.md section " + c["ref"]},
            "level_note": c.get("note", TRUSTED),
            "technique": c["technique"],
        })
    else:
        m["not_applicable"].append({"property_id": pid, "reason": NOT_YET})
json.dump(m, open(os.path.join(VERIF, "MANIFEST.json"), "w"), indent=1)
print("MANIFEST.json:", len(m["checks"]), "checks,", len(m["not_applicable"]), "not claimed")
