#!/usr/bin/env python3
"""Regenerates /verif/MANIFEST.json from the table below (kept in one place so it is always valid)."""
import json
import os

VERIF = os.path.dirname(os.path.dirname(os.path.abspath(__file__)))
props = [json.loads(l) for l in open(os.path.join(VERIF, "properties.jsonl"))]

TRUSTED = ("TLC evaluates the TLA+ modules; rustc/cargo build and run the corpus generated from TLC-enumerated declarations with "
           "the real macro from /repo's working tree; glue is mechanical forwarding (gen/rustgen.py). Programs are enumerated, not proved over.")

TV = "TLA+ spec + TLC model checking; trace validation of recorded calls of the real generated code against the spec"
SYM = "; recorded macro expansions decided for all inputs by TLC over a symbolic bit-vector domain (Sym.tla)"
CHECKS = {
    "C01": dict(text="Register.tla (Get = Read over Pos; arithmetic twin GetArith checked exhaustively by TLC on model declarations) + every recorded getter call of the real generated code on Q-star (22 bases x boundary widths x boundary positions x types) and seeded DeclGen declarations validated by TLC against RegisterTrace.tla; exhaustive raw tables for 8-bit storage.", technique=TV + SYM, ref="6/C01"),
    "C02": dict(text="Frame/ReadBack/ReceiverSame/WriteBackIdentity checked by TLC on the model declarations; with_ and set_ of every writable contiguous field recorded at (raw, value) pairs with result raw value, storage integer, receiver raw value and read-back, validated step by step.", technique=TV + SYM, ref="6/C02"),
    "C03": dict(text="Pos(f,i) = first element moved up by i*stride, OOB action = panic + UNCHANGED; arrays of 8 element kinds x K x stride x lo on 8 bases plus seeded arrays: every index and out-of-range indices on getter/with_/set_ recorded and validated. Out-of-range probes include indices whose product with the stride wraps (ceil(2^64/stride), 2^63, ..). TLAPS: ElemInj, ElemDisjoint.", technique=TV + SYM, ref="6/C03"),
    "C04": dict(text="Pos concatenates ranges in declaration order; ReadBack needs Inj(Pos) (the property's exclusion); fixed families (bit reversal, byte swap, RISC-V immediates, interleaving arrays) plus seeded lists recorded and validated; exhaustive 8-bit tables. TLAPS: GatherConcat, ScatterConcat (a list is the concatenation of its ranges).", technique=TV + SYM, ref="6/C04"),
    "C05": dict(text="Signed fields are bit patterns in the spec; two's-complement decimal checked for N<=16; Frame forbids sign leakage: every iN field of all corpora written with negative/extreme patterns, neighbours observed through raw_value() and the storage integer. TLAPS: SignExtendTruncate.", technique=TV + SYM, ref="6/C05"),
    "C06": dict(text="New/Raw/Zero/Default actions; all 128 base widths with and without defaults (literal/constant, =/:), ZERO, DEFAULT, Default::default(), new(), layout events (size/align vs native integer), Copy; the recorded new_with_raw_value/raw_value/ZERO/DEFAULT bodies are decided for ALL raw values symbolically (Sym.tla).", technique=TV + SYM, ref="6/C06"),
    "C08": dict(text="Present(enum|optenum|nested) = the type's own raw conversion applied to Read; enum/Option<enum>/nested fields of 14 widths at 3 placements, scalar/array/non-contiguous, every variant and non-variant patterns (through aliasing unsigned siblings).", technique=TV + SYM, ref="6/C08"),
    "C11": dict(text="UpperBitsZero is an invariant of the spec and is evaluated after every recorded event on the raw value AND on the storage integer (transmute); Rewrap action: new_with_raw_value(x.raw_value()) must be indistinguishable through every getter; all arbitrary-int bases of all corpora, random histories; TLC-simulated behaviours replayed on the real objects; layouts and defaults reaching above bit N-1 must be rejected; recorded setter bodies and the raw round trip decided for all inputs (inductive step). The verdict family is compiled with a dev-built and a release-built macro.", technique=TV + SYM + "; spec->impl behaviour replay", ref="6/C11"),
    "C12": dict(text="LastWriteWins (shadow register updated bit by bit) and DisjointCommute checked exhaustively by TLC on model declarations with overlapping fields (two slots); random histories on overlapping seeded layouts validated step by step with the shadow register; TLC-simulated behaviours replayed on the real objects with state comparison after every step; TLAPS lemmas LastWriteWinsStep, DisjointCommute.", technique=TV + "; spec->impl behaviour replay; TLAPS lemmas", ref="6/C12"),
    "C13": dict(text="Builder.tla type-state machine (BuildIsFold, DefaultKept, ArgsReadBack checked by TLC); build events of the real builder on Q-bld and seeded valid layouts validated against BuilderOps!BuildFold; the recorded builder chain of every layout is evaluated symbolically (interprocedurally) for ALL argument tuples.", technique=TV + SYM, ref="6/C13"),
    "C16": dict(text="Register.tla is deterministic and the only panic is OOB; the same drivers are executed under dev (opt 0, overflow checks, debug assertions) and release (opt 3, none); both traces validated and digests compared. Range lists that name a bit twice (accepted by the macro, value outside C04): Register!WithDup takes the implementation's post-state as given; no panic, invariants and digest equality are still demanded (Corpus!QDup, MC config C16d).", technique=TV + "; two build profiles" + SYM, ref="6/C16"),
    "C07": dict(text="BitEnum.tla FromRaw/ToRaw with EnumInverse/ExhaustiveTotal/ErrCarriesRaw checked by TLC on every enumerated enum declaration; recorded new_with_raw_value over ALL raw values (N<=16) and raw_value() of every variant of every accepted enum of the EnumGen space plus seeded sets for every N in 1..64, validated by TLC (EnumTrace.tla).", technique="TLA+ spec + TLC enumeration of enum declarations; trace validation of recorded conversions", ref="6/C07"),
    "C09": dict(text="Decl!Valid (three-valued Verdict) is the documented rule; TLC enumerates the single-field declaration space exhaustively on small bases (DeclSpace.tla) plus boundary families and seeded near-miss mutations; rustc + the real macro (dev-built and release-built) judge each; verdict events validated by TLC (VerdictTrace.tla), rejections must be located at the declaration. Plus the attribute language: AttrGrammar.tla (three-valued item grammar incl. permuted orders, items split over two attributes, leading-zero literals) and ArgTokens.tla (token-level space; implementation-shaped ArgumentParser model checked by TLC to refine the grammar); every enumerated attribute is judged by the real macro, accepted ones with a defined meaning are traced through their accessors.", technique="TLA+ rule + TLC-enumerated programs compiled by the real macro; verdict validation by TLC", ref="6/C09"),
    "C10": dict(text="BitEnum!EnumValid is the documented rule; TLC enumerates every discriminant set for N<=2 (3 thorough) x exhaustive setting x order plus form/cfg/boundary/count families; verdicts validated by TLC; every accepted enum is then walked over all raw values and variants (no panic, no failure for exhaustive ones). Surface forms varied: argument order of #[bitenum(..)], discriminant spellings (hex/bin/oct/underscores), inert #[cfg_attr]/#[allow] attributes on variants, one variant name under complementary #[cfg] gates, prelude-like variant names.", technique="TLA+ rule + TLC-enumerated enum declarations compiled by the real macro; verdict + trace validation by TLC", ref="6/C10"),
    "C14": dict(text="Builder.tla type-state machine model-checked; Decl!BuilderSound and the three-valued Decl!ChainVerdict decide: builder() probe and EVERY call chain of length <= m+1 on 21 layouts compiled against the real macro, verdicts validated by TLC. Layouts whose fields live wholly above bit 16/32/64/96 (the type-state mask is as wide as the base).", technique="TLA+ type-state model + exhaustive call-chain enumeration; compile verdicts validated by TLC", ref="6/C14"),
    "C17": dict(text="Decl!Api/AbsentApi (partition checked by TLC); presence/absence probes for getter/with_/set_ and builder steps of 12 field kinds x 4 access specifiers compiled from another module; absence must be E0599; validated by TLC.", technique="TLA+ API-surface rule; compile probes validated by TLC", ref="6/C17"),
    "C15": dict(text="Decl!Api marks every member but set_ const (checked by TLC); one const item per const member (ZERO, DEFAULT, new, conversions, getters, with_, builder(), steps, build(), enum conversions) must compile; a seeded straight-line program per declaration is evaluated once as const items and once at run time, both recorded as traces and validated against Register.tla.", technique="TLA+ API rule; const-item compile probes + const-vs-runtime trace validation by TLC", ref="6/C15"),
    "C18": dict(text="The specification supplies the population (TLC-enumerated valid declarations of every feature combination, documented) and the verdict (the regime must not matter: Valid => compiles); the corpus is compiled as a #![no_std] #![deny(missing_docs)] #![forbid(unsafe_code)] library and every expansion dumped by the verif_hooks hook is checked for `unsafe` tokens and foreign path roots; events validated by TLC (VerdictTrace.tla). Thinnest use of the model: a syntactic invariant on recorded expansions plus rustc's verdict. Every other unit is compiled next to user modules named core/std/alloc; field docs in every spelling (///, #[doc = ..], #[doc = concat!(..)], /** */).", technique="TLC-enumerated corpus under three crate regimes; recorded macro expansions checked for unsafe/foreign paths", ref="6/C18", category="model_checking"),
    "C19": dict(text="DebugFmt!ComposeLines (standard struct format, PadAdapter rule) over the getter renderings; debug events ({:?}, {:#?}) of Q-dbg and seeded layouts validated; small getter renderings checked against the spec's values.", technique=TV, ref="6/C19"),
}

NOT_YET = "check under construction in this round (pipeline exists for C01; being generalised)"

m = {
    "version": 1,
    "setup_cmd": "bin/setup",
    "hooks": {
        "guard": "cargo feature verif_hooks on crate bitbybit (default off)",
        "enable": "harness crates under /verif/work/ws depend on bitbybit by path with features=[\"verif_hooks\"]; the expansion dump "
                  "is active only when BITBYBIT_VERIF_DUMP_DIR is set",
        "baseline_off_cmd": "cd /repo && cargo test --workspace --no-fail-fast --offline",
        "source_commits": ["30de4ff"],
        "add_only": True,
    },
    "engines": [
        {"name": "tlc-register", "path": "spec/", "serves_properties": sorted(CHECKS),
         "kind_free_text": "explicit TLA+ specification (Decl, Register, Builder, BitEnum, AttrGrammar, ArgTokens, MacroModel, Sym) checked by TLC; conformance by "
                           "trace validation (impl->spec: RegisterTrace, EnumTrace, VerdictTrace), behaviour replay (spec->impl: SimRegister), "
                           "translation validation of recorded macro expansions (Sym), TLAPS lemmas (RegisterProofs)"},
    ],
    "checks": [],
    "not_applicable": [],
    "notes": "All checks: bin/check <id> --tier quick|thorough; VERIF_SEED honoured; BITBYBIT_REPO overrides the tree under test (default /repo).",
}
for p in props:
    pid = p["id"]
    if pid in CHECKS:
        c = CHECKS[pid]
        m["checks"].append({
            "property_id": pid,
            "quick_cmd": "bin/check %s --tier quick" % pid,
            "thorough_cmd": "bin/check %s --tier thorough" % pid,
            "evidence_file": "evidence/%s.json" % pid,
            "replay_cmd_template": "bin/check %s --replay {path}" % pid,
            "engine": "tlc-register",
            "level_claimed": {"category": c.get("category", "model_checking"), "text": c["text"], "design_ref": "DESIGN.md section " + c["ref"]},
            "level_note": c.get("note", TRUSTED),
            "technique": c["technique"],
        })
    else:
        m["not_applicable"].append({"property_id": pid, "reason": NOT_YET})
json.dump(m, open(os.path.join(VERIF, "MANIFEST.json"), "w"), indent=1)
print("MANIFEST.json:", len(m["checks"]), "checks,", len(m["not_applicable"]), "not claimed")
