"""Per-property decision procedures (DESIGN.md section 6)."""
import json
import os
import re
import shutil
import time

import rustgen
import vlib
from vlib import ToolError, log

VERIF = vlib.VERIF
WORK = vlib.WORK


# =============================================================================================
# model-checking leg (design level): TLC explores Register.tla exhaustively on the model declarations
def mc_register(tag, declset, slots, invariants, properties, workers=8, timeout=1500, idle_ok=()):
    cfg = os.path.join(WORK, "cfg", "MC_%s.cfg" % tag)
    os.makedirs(os.path.dirname(cfg), exist_ok=True)
    text = "CONSTANTS\n  Slot = {%s}\n  DeclSet <- %s\nSPECIFICATION Spec\nVIEW View\n" % (
        ", ".join('"%s"' % s for s in slots), declset)
    if invariants:
        text += "INVARIANTS " + " ".join(invariants) + "\n"
    if properties:
        text += "PROPERTIES " + " ".join(properties) + "\n"
    text += "CHECK_DEADLOCK FALSE\n"
    open(cfg, "w").write(text)
    r = vlib.tlc("MC_Register", cfg, workers=workers, timeout=timeout, heap="6g", extra=["-coverage", "1"])
    if r["rc"] != 0 or "No error has been found" not in r["out"]:
        raise ToolError("design-level model check failed (%s): the SPECIFICATION violates its own property\n%s" % (tag, r["out"][-3000:]))
    acts = {}
    for m in re.finditer(r"^<(\w+) line \d+, col \d+ to line \d+, col \d+ of module \w+(?: \([\d ]+\))?>: (\d+):(\d+)", r["out"], re.M):
        acts[m.group(1)] = {"distinct": int(m.group(2)), "taken": int(m.group(3))}
    if declset != "DupDecls":
        idle_ok = tuple(idle_ok) + ("NxGetDup", "NxWithDup")          # only Q-dup style declarations enable them
    never = [a for a, c in acts.items() if c["taken"] == 0 and a != "Init" and a not in idle_ok]
    if never:
        raise ToolError("vacuity: actions never taken in MC run %s: %s" % (tag, never))
    return {"config": tag, "declset": declset, "slots": len(slots), "distinct": r["distinct"], "generated": r["generated"],
            "invariants": invariants, "properties": properties, "actions": acts, "wall_s": round(r["wall"], 1)}


def tlaps_leg(theorems):
    """TLAPS proofs of the algebraic core for unbounded width (spec/RegisterProofs.tla), run in a private directory so that
    concurrent checks cannot disturb each other's proof cache"""
    import shutil as _sh
    import uuid
    d = os.path.join(WORK, "tlaps", uuid.uuid4().hex[:10])
    os.makedirs(d)
    _sh.copy(os.path.join(vlib.SPEC, "RegisterProofs.tla"), d)
    t0 = time.time()
    rc, out = vlib.sh(["timeout", "900", "tlapm", "--threads", "4", "--cleanfp", "RegisterProofs.tla"], cwd=d)
    if not re.search(r"All (\d+) obligations? proved", out):
        rc, out = vlib.sh(["timeout", "900", "tlapm", "--threads", "4", "--cleanfp", "RegisterProofs.tla"], cwd=d)   # one retry
    _sh.rmtree(d, ignore_errors=True)
    m = re.search(r"All (\d+) obligations? proved", out)
    if rc != 0 or not m:
        raise ToolError("tlapm did not prove RegisterProofs.tla:\n" + out[-2000:])
    return {"module": "RegisterProofs.tla", "theorems_used": theorems, "obligations": int(m.group(1)), "discharged": int(m.group(1)),
            "checker_cmd": "tlapm --threads 4 --cleanfp RegisterProofs.tla", "wall_s": round(time.time() - t0, 1),
            "scope": "unbounded register width, arbitrary position sequences (Seq(Nat)); binds to the code only through the trace legs"}


# =============================================================================================
# implementation -> specification: recorded traces validated by TLC (RegisterTrace.tla)
def decl_by_id(decls, i):
    for d in decls:
        if d["id"] == i:
            return d
    raise KeyError(i)


def make_rt_crate(name, decls, builder=False):
    flags = [builder] * len(decls)
    src, linemap = rustgen.main_source(decls, flags)
    vlib.write_crate(name, src)
    return linemap


def build_rt(name, decls, profile, pid):
    ok, diags = vlib.cargo_build(name, profile)
    return ok, diags


class Violation(Exception):
    def __init__(self, replay):
        self.replay = replay


def write_replay(pid, info):
    d = os.path.join(WORK, "replay")
    os.makedirs(d, exist_ok=True)
    path = os.path.join(d, "%s-%d.json" % (pid, int(time.time() * 1000) % 100000000))
    json.dump(info, open(path, "w"), indent=1)
    return path


def compile_violation(pid, corpus_name, decls, linemap, diags, crate):
    """A diagnostic inside a Valid declaration's module: the accessor the property talks about does
    not exist / does not have the declared type (DESIGN 7.4)."""
    d0 = diags[0]
    hit = None
    for lm in linemap:
        if lm["mod_first"] <= d0["line"] <= lm["mod_last"]:
            hit = lm
            break
    if hit is None or not d0["file"].endswith("main.rs"):
        raise ToolError("compile error that cannot be attributed to a declaration:\n" + d0["rendered"])
    d = decl_by_id(decls, hit["id"])
    info = {"property": pid, "kind": "compile", "corpus": corpus_name, "decl": d,
            "rust_source": "\n".join(rustgen.decl_source(d)),
            "diagnostic": d0["rendered"], "in_declaration": hit["decl_first"] <= d0["line"] <= hit["decl_last"],
            "expected": "a declaration that is Valid by spec/Decl.tla compiles and offers the API of Decl!Api with the declared types",
            "builder": False}
    return write_replay(pid, info)


def trace_leg(pid, tier, seed, corpus_name, decls, declfile, modes, budget, profiles=("dev",), builder=False, crate=None,
              shard_bytes=1500000, binding_events=("get", "with", "set", "raw", "build", "new")):
    """Build the corpus with the real macro from REPO's working tree, record, validate.  Returns stats.
    Raises Violation (after reproducing) when the trace of the real code is not a behaviour of the spec."""
    crate = crate or ("rt-" + corpus_name)
    linemap = make_rt_crate(crate, decls, builder)
    stats = {"corpus": corpus_name, "declarations": len(decls), "fields": sum(len(d["fields"]) for d in decls), "runs": []}
    digests = {}
    for profile in profiles:
        t0 = time.time()
        ok, diags = vlib.cargo_build(crate, profile)
        if not ok:
            raise Violation(compile_violation(pid, corpus_name, decls, linemap, diags, crate))
        tb = time.time() - t0
        outdir = os.path.join(WORK, "traces", "%s-%s-%s" % (pid, corpus_name, profile))
        n, shards = vlib.record(crate, profile, modes, budget, seed, outdir, shard_bytes=shard_bytes)
        t1 = time.time()
        import hashlib
        h = hashlib.sha256()
        for s in shards:
            h.update(open(s, "rb").read())
        if h.hexdigest() in digests.values():
            # byte-identical to a trace that TLC has already accepted event by event: nothing new to validate
            st = vlib.trace_stats(shards)
            st.update({"profile": profile, "shards": len(shards), "build_s": round(tb, 1), "validate_s": 0.0, "tlc_states": 0,
                       "note": "byte-identical to the validated %s trace" % [k for k, v in digests.items() if v == h.hexdigest()][0]})
            stats["runs"].append(st)
            digests[profile] = h.hexdigest()
            continue
        results = vlib.validate(shards, declfile)
        tv = time.time() - t1
        rej = [r for r in results if r["status"] == "rejected"]
        if rej:
            r = rej[0]
            evs = vlib.events_until(r["shard"], r["line"])
            decl_id = evs[0]["decl"]
            d = decl_by_id(decls, decl_id)
            # reproduce in a fresh process on that declaration alone before raising the alarm
            odir2 = outdir + "-confirm"
            n2, shards2 = vlib.record(crate, profile, modes, budget, seed, odir2, only=decl_id, shard_bytes=shard_bytes)
            res2 = vlib.validate(shards2, declfile)
            rej2 = [x for x in res2 if x["status"] == "rejected"]
            if not rej2:
                raise ToolError("trace rejection did not reproduce (flaky harness?) at %s line %d" % (r["shard"], r["line"]))
            r2 = rej2[0]
            evs2 = vlib.events_until(r2["shard"], r2["line"])
            info = {"property": pid, "kind": "trace", "corpus": corpus_name, "decl": d, "profile": profile, "modes": modes,
                    "budget": budget, "seed": seed, "builder": builder,
                    "rust_source": "\n".join(rustgen.decl_source(d)),
                    "failing_event": evs2[-1],
                    "spec_state_before_failing_event": r2.get("state", ""),
                    "events_since_reset": evs2[-40:],
                    "explanation": "the failing event is not a step of spec/Register.tla from the shown state: the logged "
                                   "result/post-state differs from the specification's, or an invariant fails after it"}
            raise Violation(write_replay(pid, info))
        st = vlib.trace_stats(shards)
        st.update({"profile": profile, "shards": len(shards), "build_s": round(tb, 1), "validate_s": round(tv, 1),
                   "tlc_states": sum(r["generated"] for r in results)})
        if not stats["runs"]:
            st["binding_demo"] = binding_demo(shards[0], declfile, binding_events)
        stats["runs"].append(st)
        # big accepted traces are not kept (disk): their digest and statistics are
        try:
            total = sum(os.path.getsize(x) for x in shards)
        except OSError:
            total = 0
        # profile independence (C16): the recorded traces must be byte-identical across profiles
        import hashlib
        h = hashlib.sha256()
        for s in shards:
            h.update(open(s, "rb").read())
        digests[profile] = h.hexdigest()
        if total > 300_000_000:
            shutil.rmtree(outdir, ignore_errors=True)
    stats["digests"] = digests
    return stats


def sim_leg(pid, tier, seed, crate, decls, declfile, num, depth, profile="dev"):
    """specification -> implementation: TLC simulates Register.tla (SimRegister.tla), the harness replays each behaviour on the
    real object and compares the abstract state after every step."""
    t0 = time.time()
    r = vlib.tlc("SimRegister", "SimRegister.cfg", env={"DECLFILE": declfile, "SIM_DEPTH": str(depth)},
                 simulate=["num=%d" % num], extra=["-depth", str(depth + 1), "-seed", str(seed)], timeout=1500, heap="4g")
    if "Error:" in r["out"] and "REPLAY" not in r["out"]:
        raise ToolError("SimRegister failed:\n" + r["out"][-3000:])
    if "is violated" in r["out"]:
        raise ToolError("the specification violates its own invariant along a simulated behaviour:\n" + r["out"][-3000:])
    behs = []
    seen = set()
    for line in r["out"].splitlines():
        m = re.match(r'<<"REPLAY", "(.*)">>\s*$', line)
        if not m:
            continue
        b = json.loads(m.group(1).replace('\\"', '"'))
        key = json.dumps(b["steps"][:-1], sort_keys=True)
        if key in seen:
            continue
        seen.add(key)
        behs.append(b)
    if not behs:
        raise ToolError("SimRegister produced no behaviour:\n" + r["out"][-2000:])
    bl = lambda v: ",".join(str(x) for x in v) if v else "-"
    path = os.path.join(WORK, "traces", "%s-behaviours.txt" % pid)
    os.makedirs(os.path.dirname(path), exist_ok=True)
    with open(path, "w") as fh:
        for k, b in enumerate(behs):
            fh.write("B %d %d\n" % (k, b["decl"]))
            for st in b["steps"]:
                fh.write("S %s %s %s %d %d %s %s %s %s %s %s\n" % (st["op"], st["s"], st["t"], st["j"], st["i"], bl(st["v"]), bl(st["a"]), bl(st["b"]),
                                                                   st["out"]["k"], bl(st["out"]["v"]), st["out"]["name"] or "-"))
    rc, out = vlib.sh([vlib.bin_path(crate, profile)], env={"REPLAY_FILE": path}, timeout=1200)
    m = re.search(r"REPLAYED (\d+) (\d+)", out)
    if rc != 0 or not m:
        raise ToolError("behaviour replay failed rc=%d:\n%s" % (rc, out[-2000:]))
    mism = [l for l in out.splitlines() if l.startswith("MISMATCH")]
    if mism:
        mm = re.match(r"MISMATCH beh=(\d+) step=(\d+)", mism[0])
        b = behs[int(mm.group(1))]
        d = decl_by_id(decls, b["decl"])
        info = {"property": pid, "kind": "behaviour", "decl": d, "rust_source": "\n".join(rustgen.decl_source(d)), "mismatch": mism[0],
                "behaviour": b["steps"][: int(mm.group(2))], "seed": seed, "profile": profile,
                "explanation": "a behaviour of spec/Register.tla generated by TLC was replayed on the real object; after the last step shown "
                               "the real state / observation differs from the specification's"}
        raise Violation(write_replay(pid, info))
    ops = {}
    for b in behs:
        for st in b["steps"]:
            ops[st["op"]] = ops.get(st["op"], 0) + 1
    return {"behaviours": len(behs), "steps_replayed": int(m.group(2)), "depth": depth, "ops": ops, "tlc_states_generated": r["generated"],
            "declarations_hit": len({b["decl"] for b in behs}), "wall_s": round(time.time() - t0, 1),
            "sample": {"decl": behs[0]["decl"], "steps": behs[0]["steps"][:3]}}


def binding_demo(shard, declfile, kinds=("get", "with", "set", "raw", "build", "new")):
    """vacuity guard, run on every check run: one logged observation of an accepted trace is corrupted (one bit flipped in a
    result / post-state) and TLC must reject the trace at exactly that line; one event is dropped and TLC must notice."""
    lines = open(shard).read().splitlines()
    pick = None
    for k in range(len(lines) // 2, len(lines)):
        ev = json.loads(lines[k])
        if ev["ev"] in kinds and ("res" in ev or "dst_raw" in ev or "raw" in ev):
            if ev.get("panic") or (isinstance(ev.get("res"), dict) and ev["res"].get("k") == "panic"):
                continue        # a panic carries no value that could be corrupted
            pick = k
            break
    if pick is None:
        return {"skipped": "no observable event in the second half of the first shard"}
    ev = json.loads(lines[pick])

    def flip(bits):
        return [b for b in bits if b != 0] if 0 in bits else [0] + bits
    if ev["ev"] == "with":
        ev["dst_raw"] = flip(ev["dst_raw"])
    elif ev["ev"] in ("set", "build"):
        ev["raw"] = flip(ev["raw"])
    elif ev["res"]["k"] in ("var", "ok"):
        ev["res"]["name"] = ev["res"]["name"] + "_"
    else:
        ev["res"]["v"] = flip(ev["res"]["v"])
    bad = shard + ".corrupt"
    open(bad, "w").write("\n".join(lines[:pick] + [json.dumps(ev)] + lines[pick + 1:]) + "\n")
    r = vlib.validate([bad], declfile)[0]
    os.remove(bad)
    if r["status"] != "rejected" or r["line"] != pick + 1:
        raise ToolError("binding demo failed: a corrupted observation at line %d of %s was not rejected there (%s)" % (pick + 1, shard, r))
    return {"corrupted_event": lines[pick][:200], "corrupted_line": pick + 1, "rejected_at_line": r["line"]}


def replay(pid, path):
    info = json.load(open(path))
    if info.get("kind") == "trace":
        d = dict(info["decl"])
        d["seed_id"] = d["id"]
        decls = [d]
        declfile = os.path.join(WORK, "replay", "decl-%s.json" % pid)
        # TLC indexes declarations by id+1: pad so that the id is preserved
        pad = [dict(d, id=k) for k in range(d["id"])] + [d]
        json.dump(pad, open(declfile, "w"))
        crate = "replay"
        make_rt_crate(crate, decls, info.get("builder", False))
        ok, diags = vlib.cargo_build(crate, info["profile"])
        if not ok:
            print(diags[0]["rendered"])
            print("VIOLATION property=%s replay=%s" % (pid, path))
            return 1
        outdir = os.path.join(WORK, "traces", "replay-" + pid)
        n, shards = vlib.record(crate, info["profile"], info["modes"], info["budget"], info["seed"], outdir)
        res = vlib.validate(shards, declfile)
        rej = [r for r in res if r["status"] == "rejected"]
        if rej:
            evs = vlib.events_until(rej[0]["shard"], rej[0]["line"])
            print("first event that is not a step of the specification:", json.dumps(evs[-1]))
            print("specification state before it:", rej[0].get("state"))
            print("VIOLATION property=%s replay=%s" % (pid, path))
            return 1
        print("replay: trace accepted (%d events) -- not reproduced on the current tree" % n)
        return 0
    if info.get("kind") == "compile":
        d = info["decl"]
        crate = "replay"
        make_rt_crate(crate, [d], info.get("builder", False))
        ok, diags = vlib.cargo_build(crate, "dev")
        if not ok:
            print(diags[0]["rendered"])
            print("VIOLATION property=%s replay=%s" % (pid, path))
            return 1
        print("replay: compiles on the current tree -- not reproduced")
        return 0
    import verdicts
    return verdicts.replay(pid, info, path)


# =============================================================================================
PROOFS = {}
SIMS = {}
SYMS = {}


def sym(pid, decls, ops=("get", "with", "set")):
    """recorded macro output -> spec (all inputs per layout); see gen/symleg.py"""
    import symleg
    SYMS[pid] = symleg.sym_leg(pid, pid.lower(), decls, ops=ops)


def finish(pid, tier, seed, t0, mc, legs, rule, assumptions, extra=None, level="model_checking"):
    states = sum(m["distinct"] for m in mc)
    transitions = sum(m["generated"] for m in mc)
    traces = 0
    evaluations = 0
    distinct = 0
    samples = []
    for leg in legs:
        for run in leg.get("runs", []):
            states += run["tlc_states"]
            transitions += run["events"]
            traces += run["kinds"].get("reset", 0)
            evaluations += run["events"]
            distinct += run["distinct_nontrivial"]
            if len(samples) < 4:
                samples.extend(run["samples"][:2])
    cov = {"states": states, "transitions": transitions, "traces_validated_against_impl": traces,
           "evaluations": evaluations, "distinct_nontrivial": distinct, "rule": rule, "samples": samples,
           "model_checking": mc,
           "trace_validation": [{k: v for k, v in leg.items() if k != "runs"} | {"runs": [{k: v for k, v in r.items() if k != "samples"} for r in leg.get("runs", [])]} for leg in legs],
           "checker_cmd": "tlc -workers 1 -config RegisterTrace.cfg RegisterTrace.tla (per shard); tlc MC_Register.tla (design level)",
           "repo": vlib.REPO}
    if extra:
        cov.update(extra)
    if pid in PROOFS:
        cov["tlaps"] = PROOFS[pid]
    if pid in SYMS:
        cov["symbolic_expansion_validation"] = SYMS[pid]
        cov["obligations"] = SYMS[pid]["obligations"]
        cov["discharged"] = SYMS[pid]["decided_ok"]
    if pid in SIMS:
        cov["spec_to_impl_replay"] = SIMS[pid]
        cov["traces_validated_against_impl"] += SIMS[pid]["behaviours"]
        cov["transitions"] += SIMS[pid]["steps_replayed"]
    vlib.write_evidence(pid, tier, seed, level, cov, assumptions, time.time() - t0)


COMMON_ASSUMPTIONS = [
    "TLC/SANY evaluate the TLA+ modules correctly; rustc/cargo build the corpus from the working tree of the repository",
    "generated glue is pure method-call forwarding plus bit-pattern conversions by `as`, ::new and .value() (gen/rustgen.py)",
    "programs (declarations) are enumerated, not proved over: see coverage.trace_validation for the corpus composition",
]


def run(pid, tier, seed, t0):
    import verdicts  # noqa: F401  (registers C07, C09, C10, ...)
    fn = REGISTRY.get(pid)
    if fn is None:
        print("TOOL-ERROR: no check registered for", pid)
        return 2
    try:
        fn(pid, tier, seed, t0)
    except Violation as v:
        try:
            vlib.write_evidence(pid, tier, seed, "model_checking",
                                {"evaluations": 1, "distinct_nontrivial": 2, "states": 1, "transitions": 1,
                                 "traces_validated_against_impl": 0, "samples": [{"violation_replay": v.replay}],
                                 "rule": "run stopped at the first reproduced violation"},
                                COMMON_ASSUMPTIONS, time.time() - t0, violations=1)
        except Exception:
            pass
        print("VIOLATION property=%s replay=%s" % (pid, v.replay))
        return 1
    print("OK property=%s tier=%s wall=%.1fs" % (pid, tier, time.time() - t0))
    return 0


# =============================================================================================
def q(tier, quick, thorough):
    return quick if tier == "quick" else thorough


def sub(decls, pred):
    """restrict declarations to the fields satisfying pred (keeps ids)"""
    out = []
    for d in decls:
        fs = [f for f in d["fields"] if pred(d, f)]
        if fs:
            dd = dict(d)
            dd["fields"] = fs
            out.append(dd)
    return out


def save_decls(tag, decls):
    p = os.path.join(WORK, "corpus", "use-%s.json" % tag)
    os.makedirs(os.path.dirname(p), exist_ok=True)
    # TLC indexes by id + 1
    for k, d in enumerate(decls):
        d["id"] = k
    json.dump(decls, open(p, "w"))
    return p


def is_native(n):
    return n in (8, 16, 32, 64, 128)


def contiguous(d, f):
    return not f["list"] and not f["array"]


def gen_random(tier, seed, mode, tag, num_q, num_t, maxfields=6, custom=False):
    consts = {"GEN_MAXFIELDS": maxfields}
    if custom:
        consts["GEN_CUSTOM"] = 1      # rich mode: enum / Option<enum> / nested-bitfield typed fields, non-zero defaults
    _, decls = vlib.declgen(mode, q(tier, num_q, num_t), 60, seed, consts, tag + ("-rich" if custom else ""))
    return decls


def tall_chunks(pred=None, chunk=500):
    """T-all: every (lo, hi) of 11 bases (spec/Corpus.tla QTall), split into compile units of <= chunk fields"""
    _, tall = vlib.corpus("tall")
    out = []
    for d in tall:
        fs = [f for f in d["fields"] if pred is None or pred(d, f)]
        for k in range(0, len(fs), chunk):
            dd = dict(d)
            dd["fields"] = [dict(f, name="f%d" % j) for j, f in enumerate(fs[k:k + chunk])]
            out.append(dd)
    return json.loads(json.dumps(out))


def copyd(decls):
    return [json.loads(json.dumps(d)) for d in decls]


def c01(pid, tier, seed, t0):
    mc = [mc_register("C01", "SmallDecls", ["a", "b"], ["TypeOK", "GetArith", "UpperBitsZero"], [])]
    _, star = vlib.corpus("star")
    _, model = vlib.corpus("model")
    rnd = sub(gen_random(tier, seed, "overlap", "c01", 60, 600, custom=True), lambda d, f: contiguous(d, f) and f["access"] != "w")
    decls = copyd(star) + copyd(model) + copyd(rnd) + (tall_chunks() if tier == "thorough" else [])
    decls = vlib.vary_names(decls)
    declfile = save_decls("C01", decls)
    legs = [trace_leg(pid, tier, seed, "star+model+rand", decls, declfile, "get,tableget", q(tier, 1, 6), crate="rt-c01")]
    # symbolically also EVERY (lo, hi) of the bases up to 33 bits (thorough: all 11 T-all bases are in decls already)
    sym(pid, decls + (tall_chunks(lambda d, f: d["n"] <= 33) if tier == "quick" else []), ops=("get",))
    finish(pid, tier, seed, t0, mc, legs,
           "every readable contiguous field of Q-star (22 bases x boundary widths x boundary positions x type variants) and of seeded "
           "DeclGen declarations read at edge-pattern raws (0, ones, field mask, complement, walking 1/0 around every range edge, "
           "alternating, random) plus exhaustive raw tables for storage 8; an evaluation is one recorded call; distinct non-trivial = "
           "distinct (declaration, call, field, index, result class) with a non-zero result", COMMON_ASSUMPTIONS)


def c02(pid, tier, seed, t0):
    mc = [mc_register("C02", "SmallDecls", ["a", "b"], ["TypeOK", "Frame", "ReadBack", "WriteBackIdentity"], ["ReceiverSame"])]
    _, star = vlib.corpus("star")
    _, model = vlib.corpus("model")
    rnd = sub(gen_random(tier, seed, "overlap", "c02", 60, 600, custom=True), lambda d, f: f["access"] != "r")
    _, nc = vlib.corpus("nc")
    _, arr = vlib.corpus("arr")
    # "every writable field": the contiguous scalars carry the weight, range lists and a slice of the arrays ride along
    arrs = copyd(arr)
    for d in arrs:
        d["fields"] = d["fields"][:: q(tier, 6, 2)]
    decls = copyd(star) + copyd(model) + copyd(rnd) + copyd(nc) + arrs + (tall_chunks() if tier == "thorough" else [])
    decls = vlib.vary_names(decls)
    declfile = save_decls("C02", decls)
    legs = [trace_leg(pid, tier, seed, "star+model+rand", decls, declfile, "write,table", q(tier, 1, 2), crate="rt-c02")]
    PROOFS["C02"] = tlaps_leg(["Frame", "RoundTrip", "WriteBackIdentity", "WriteIdempotent"])
    sym(pid, decls + (tall_chunks(lambda d, f: d["n"] <= 33) if tier == "quick" else []), ops=("with", "set"))
    finish(pid, tier, seed, t0, mc, legs,
           "every writable contiguous field written through with_ AND set_ at (raw, value) pairs: raws {0, ones, field mask, complement, "
           "random} x values {0, ones, walking 1/0 at both ends, random}; after each write the result's raw value AND storage integer, "
           "the receiver's raw value and the getter read-back are logged and validated; exhaustive raw x value tables for storage 8. "
           "distinct non-trivial = distinct (declaration, call, field, index, changed?)", COMMON_ASSUMPTIONS)


def c03(pid, tier, seed, t0):
    mc = [mc_register("C03", "SmallDecls", ["a", "b"], ["TypeOK", "Frame", "ReadBack", "GetArith"], []),
          mc_register("C03n", "NineDecls", ["a"], ["TypeOK", "Frame", "ReadBack", "UpperBitsZero", "LastWriteWins"], [], idle_ok=("Default",))]
    _, arr = vlib.corpus("arr")
    _, nc = vlib.corpus("nc")
    rnd = sub(gen_random(tier, seed, "overlap", "c03", 120, 1200, custom=True), lambda d, f: bool(f["array"]))
    decls = copyd(arr) + copyd(sub(nc, lambda d, f: bool(f["array"]))) + copyd(rnd)
    if tier == "quick":
        # every (element kind, K class, stride class, lo) is kept; of the 8 bases the two largest are thinned to every 2nd field
        for d in decls:
            if d["n"] in (100, 128) and len(d["fields"]) > 60:
                d["fields"] = d["fields"][::2]
    decls = vlib.vary_names(decls)
    declfile = save_decls("C03", decls)
    legs = [trace_leg(pid, tier, seed, "arr+nc-arrays+rand", decls, declfile, "get,write", q(tier, 1, 3), crate="rt-c03")]
    PROOFS["C03"] = tlaps_leg(["ElemInj", "ElemDisjoint (elements at lo + i*stride with stride >= width never share a bit)", "RoundTrip", "Frame"])
    sym(pid, decls)
    finish(pid, tier, seed, t0, mc, legs,
           "array fields of element kinds {bool,u1,u3,u8,i8,u16,enum u2,Option<enum u3>} x K in {2,3,max} x stride in {w,w+1,w+3} x lo "
           "in {0,1} on 8 bases, plus seeded DeclGen arrays: every index 0..K-1 read and written (with_/set_), out-of-range indices "
           "{K,K+1,K+7,2^20} on getter, with_ and set_ (must panic; object unchanged after a caught set_ panic)", COMMON_ASSUMPTIONS)


def c04(pid, tier, seed, t0):
    mc = [mc_register("C04", "SmallDecls", ["a", "b"], ["TypeOK", "Frame", "ReadBack", "WriteBackIdentity"], []),
          mc_register("C04n", "NineDecls", ["a"], ["TypeOK", "Frame", "ReadBack", "WriteBackIdentity", "DisjointCommute"], [], idle_ok=("Default",))]
    _, nc = vlib.corpus("nc")
    rnd = sub(gen_random(tier, seed, "overlap", "c04", 150, 2000, custom=True), lambda d, f: f["list"])
    decls = copyd(nc) + copyd(rnd)
    decls = vlib.vary_names(decls)
    declfile = save_decls("C04", decls)
    legs = [trace_leg(pid, tier, seed, "nc+rand", decls, declfile, "get,write,table", q(tier, 2, 6), crate="rt-c04")]
    PROOFS["C04"] = tlaps_leg(["Frame", "RoundTrip (Inj(p) is C04's exclusion of duplicate bits)", "GatherConcat", "ScatterConcat (ranges concatenate, first range least significant)"])
    sym(pid, decls)
    finish(pid, tier, seed, t0, mc, legs,
           "non-contiguous range lists (bit reversal, byte swap, RISC-V immediates, reversed/shuffled lists, arrays of lists with "
           "explicit stride including interleaving elements, ascending back-to-back lists) plus seeded DeclGen lists of 2..3 disjoint "
           "ranges: each read at walking-1 raws around every range edge and written with walking-1 values over zero and all-ones raws; "
           "exhaustive tables on 8-bit bases", COMMON_ASSUMPTIONS)


def c05(pid, tier, seed, t0):
    mc = [mc_register("C05", "ByteDecls", ["a"], ["TypeOK", "Frame", "ReadBack", "UpperBitsZero"], [], idle_ok=("NxOOB", "Default")),
          mc_register("C05n", "NineDecls", ["a"], ["TypeOK", "Frame", "ReadBack", "UpperBitsZero"], [], idle_ok=("Default",))]
    _, star = vlib.corpus("star")
    _, arr = vlib.corpus("arr")
    _, nc = vlib.corpus("nc")
    rnd = gen_random(tier, seed, "overlap", "c05", 200, 2000, custom=True)
    signed = lambda d, f: f["kind"] == "inat"
    decls = copyd(sub(star, signed)) + copyd(sub(arr, signed)) + copyd(sub(nc, signed)) + copyd(sub(rnd, signed))
    if tier == "thorough":
        decls += tall_chunks(signed)
    # signed fields NEXT TO unsigned fields of the same width (what one field's code generation decides must not leak into the
    # next field's): both declaration orders, unsigned neighbour writable / write-only / read-only, scalar and array neighbours
    def mfld(name, kind, tw, lo, acc, arr=None, stride=None):
        return {"name": name, "kind": kind, "tw": tw, "ty": 0, "ranges": [[lo, lo + tw - 1]], "list": False, "array": arr or [],
                "stride": stride or [], "access": acc}
    for w in (8, 16, 32, 64):
        for n in [x for x in (2 * w, 3 * w, 4 * w) if x <= 128]:
            for uacc in ("rw", "w", "r"):
                for first in ("u", "s"):
                    fs = [mfld("u", "unat", w, 0, uacc), mfld("s", "inat", w, w, "rw")] + ([mfld("t", "inat", w, 2 * w, "rw")] if 3 * w <= n else [])
                    if first == "s":
                        fs = [fs[1], fs[0]] + fs[2:]
                    decls.append({"id": 0, "name": "T", "n": n, "s": rustgen.storage_of(n), "def": [], "defform": "lit", "defsyn": "=",
                                  "debug": False, "fields": fs, "enums": [], "nested": []})
    decls = vlib.vary_names(decls)
    declfile = save_decls("C05", decls)
    legs = [trace_leg(pid, tier, seed, "signed(star,arr,nc,rand)", decls, declfile, "get,write", q(tier, 3, 10), crate="rt-c05")]
    PROOFS["C05"] = tlaps_leg(["SignExtendTruncate (sign extension to the return type, truncation back to the field)", "RoundTrip", "Frame"])
    sym(pid, decls)
    finish(pid, tier, seed, t0, mc, legs,
           "every iN field (N in 8,16,32,64,128) of Q-star/Q-arr/Q-nc and seeded declarations: patterns 0, -1, MIN, MAX, walking bits, "
           "random written over raws {0, ones, mask, complement, random}; bits above the field observed through raw_value() and the "
           "storage integer; two's-complement decimal rendering checked by the spec for N <= 16", COMMON_ASSUMPTIONS)


def c06(pid, tier, seed, t0):
    mc = [mc_register("C06", "SmallDecls", ["a", "b"], ["TypeOK", "UpperBitsZero"], ["DeclConstant"])]
    _, base = vlib.corpus("base")
    decls = copyd(base)
    decls = vlib.vary_names(decls)
    declfile = save_decls("C06", decls)
    legs = [trace_leg(pid, tier, seed, "base", decls, declfile, "base", q(tier, 1, 8), crate="rt-c06")]
    # for ALL raw values: new_with_raw_value(r).raw_value() = r with nothing stored at or above bit N; ZERO; DEFAULT
    sym(pid, decls, ops=("base",))
    # a user-written #[derive(Default)] next to a declared default: either rejected (conflicting impls) or, if it compiles,
    # Default::default() still carries the declared value
    import verdicts
    dd = []
    for k, (n, bits) in enumerate([(32, [3, 4, 28]), (8, [0, 7]), (24, [23, 1]), (128, [127, 64, 0]), (7, [6])]):
        dd.append({"id": k, "name": "T", "n": n, "s": rustgen.storage_of(n), "def": [bits], "defform": "lit", "defsyn": "=" if k % 2 == 0 else ":",
                   "debug": False, "fields": [], "enums": [], "nested": [], "struct_attrs": ["#[derive(Default)]"]})
    units = [verdicts.decl_unit(d) for d in dd]
    verdicts.batch_build("v-c06d", units, "dev")
    alive = [d for d, u in zip(dd, units) if u.compiles]
    derive_note = {"declarations": len(dd), "rejected_by_compiler": len(dd) - len(alive), "compiled_and_traced": len(alive)}
    if alive:
        alive = copyd(alive)
        dfile = save_decls("C06d", alive)
        legs.append(trace_leg(pid, tier, seed, "derive(Default)+default", alive, dfile, "base", 1, crate="rt-c06d"))
    # the same declarations inside a #![no_std] library: ZERO/DEFAULT/Default/new must not need anything outside core
    nd = [d for d in copyd(base) if d["def"]][:: q(tier, 4, 1)]
    vlib.vary_names(nd)
    nfile = verdicts.save("C06n", nd)
    nunits = [verdicts.decl_unit(d, doc=True) for d in nd]
    verdicts.batch_build("v-c06n", nunits, "dev", lib=True, header=["#![allow(unused, dead_code, deprecated)]"],
                         crate_attrs=["#![no_std]", "//! C06 base declarations with defaults in a no_std crate"])
    nev = [{"ev": "regime", "decl": d["id"], "regime": "no_std", "compiles": bool(u.compiles), "source": "\n".join(rustgen.decl_source(d, doc=True)),
            "diagnostic": (u.diag or {}).get("rendered", "")} for d, u in zip(nd, nunits)]
    nstates, known = verdicts.validate_events(pid, "v-c06n", nev, nfile, nd, lambda ev: "no_std:u%d:%s" % (nd[ev["decl"]]["n"], "compiles" if ev["compiles"] else "fails"))
    for line in known:
        print(line)
    mc.append({"config": "regime events: base declarations with defaults compile in a #![no_std] crate", "distinct": nstates, "generated": len(nev), "wall_s": 0})
    finish(pid, tier, seed, t0, mc, legs,
           "all 128 base widths without default, all with a default (literal / named constant, `=` / legacy `:`; default bits no "
           "field covers; top-bit and all-ones defaults): new_with_raw_value->raw_value for 0, ones, alternating, every walking 1/0, "
           "random (all 2^N for N <= 10; <= 16 in thorough), ZERO, DEFAULT, Default::default(), new(), size_of/align_of vs the native "
           "integer, Copy by use-after-copy; plus declarations that also carry a user #[derive(Default)]", COMMON_ASSUMPTIONS,
           extra={"derive_default_family": derive_note})


def c08(pid, tier, seed, t0):
    mc = [mc_register("C08", "SmallDecls", ["a", "b"], ["TypeOK", "Frame", "ReadBack"], [])]
    _, cust = vlib.corpus("cust")
    rnd = sub(gen_random(tier, seed, "overlap", "c08", 150, 1500, custom=True), lambda d, f: f["kind"] in ("enum", "optenum", "nested"))
    decls = copyd(cust) + copyd(rnd)
    decls = vlib.vary_names(decls)
    declfile = save_decls("C08", decls)
    legs = [trace_leg(pid, tier, seed, "cust", decls, declfile, "get,write", q(tier, 1, 4), crate="rt-c08")]
    sym(pid, decls)
    finish(pid, tier, seed, t0, mc, legs,
           "enum / Option<enum> fields of widths {1,2,3,7,8,9,15,16,17,31,32,33,63,64} (exhaustive where <= 3 bits) and nested "
           "bitfields of widths {4,8,12,32,64,128} at first/middle/top placement, scalar, array and non-contiguous; every variant "
           "written, non-variant patterns written through a sibling unsigned field aliasing the same bits and read back as Err(bits)",
           COMMON_ASSUMPTIONS)


def c11(pid, tier, seed, t0):
    mc = [mc_register("C11", "SmallDecls", ["a", "b"], ["TypeOK", "UpperBitsZero", "LastWriteWins"], []),
          mc_register("C11n", "NineDecls", ["a"], ["TypeOK", "UpperBitsZero", "LastWriteWins"], [], idle_ok=("Default",))]
    arb = lambda d: not is_native(d["n"])
    _, star = vlib.corpus("star")
    _, arr = vlib.corpus("arr")
    _, nc = vlib.corpus("nc")
    _, cust = vlib.corpus("cust")
    _, model = vlib.corpus("model")
    rnd = gen_random(tier, seed, "overlap", "c11", 300, 3000, custom=True)
    decls = [d for d in copyd(star) + copyd(arr) + copyd(nc) + copyd(cust) + copyd(model) + copyd(rnd) if arb(d)]
    if tier == "thorough":
        decls += [d for d in tall_chunks() if arb(d)]
    if tier == "quick":
        for d in decls:
            if len(d["fields"]) > 40:
                # keep every field touching the top bits, thin the rest
                top = [f for f in d["fields"] if max(h for _, h in f["ranges"]) >= d["n"] - 2 or f["kind"] == "inat"]
                rest = [f for f in d["fields"] if f not in top]
                d["fields"] = top + rest[::3]
    decls = vlib.vary_names(decls)
    declfile = save_decls("C11", decls)
    legs = [trace_leg(pid, tier, seed, "arbitrary-int bases", decls, declfile, "write,history", q(tier, 1, 4), crate="rt-c11")]
    # layouts that would put state above bit N-1 must not exist at all: compile verdicts validated against Decl!Valid
    import verdicts
    fam = verdicts.above_n_family()
    vfile = verdicts.save("C11v", fam)
    vev = []
    # with a dev-built AND a release-built macro (no overflow checks inside the macro's own arithmetic)
    for profile in ("dev", "release"):
        units = [verdicts.decl_unit(d) for d in fam]
        vbuilds = verdicts.batch_build("v-c11", units, profile)
        for d, u in zip(fam, units):
            vev.append({"ev": "dverdict", "decl": d["id"], "macro_profile": profile, "accepted": bool(u.compiles),
                        "in_decl": True if u.compiles else verdicts.in_decl(u),
                        "source": "\n".join(rustgen.decl_source(d)), "diagnostic": (u.diag or {}).get("rendered", "")})
    vstates, known = verdicts.validate_events(pid, "v-c11", vev, vfile, fam,
                                              lambda ev: "%s:u%d:%s" % ("accept" if ev["accepted"] else "reject", fam[ev["decl"]]["n"], rustgen.attr_text(fam[ev["decl"]]["fields"][0]).replace(" ", "")))
    for line in known:
        print(line)
    PROOFS["C11"] = tlaps_leg(["UpperBitsStayZero"])
    # spec -> impl on the arbitrary-int bases: TLC-simulated behaviours (incl. rewrap = new_with_raw_value(raw_value())) replayed
    # on the real objects, raw value AND storage integer compared after every step
    SIMS["C11"] = sim_leg(pid, tier, seed, "rt-c11", decls, declfile, q(tier, 40, 600), q(tier, 25, 50))
    sym(pid, decls, ops=("with", "set"))
    mc.append({"config": "verdict events (layouts reaching above bit N-1 on 13 arbitrary-int bases incl. arrays whose first element is above N-1, with controls; dev- and release-built macro) validated against Decl!Valid",
               "distinct": vstates, "generated": len(vev), "wall_s": 0})
    finish(pid, tier, seed, t0, mc, legs,
           "every arbitrary-int base of all corpora: after every write raw_value() (a panic is a violation), the STORAGE integer "
           "(transmute) which must have no bit at or above N, and all getters on the live object vs on "
           "new_with_raw_value(x.raw_value()); random histories of with_/set_/copy/rewrap over two slots", COMMON_ASSUMPTIONS +
           ["the storage integer is observed by transmute_copy of the #[repr(C)] one-field struct after its size was checked (C06)"])


def c12(pid, tier, seed, t0):
    mc = [mc_register("C12", "SmallDecls", ["a", "b"], ["TypeOK", "LastWriteWins", "DisjointCommute", "UpperBitsZero"], ["ReceiverSame"])]
    if tier == "thorough":
        mc.append(mc_register("C12b", "ByteDecls", ["a"], ["TypeOK", "LastWriteWins", "DisjointCommute"], [], idle_ok=("NxOOB", "Default")))
        mc.append(mc_register("C12n", "NineDecls", ["a"], ["TypeOK", "LastWriteWins", "DisjointCommute", "UpperBitsZero"], [], idle_ok=("Default",)))
    _, model = vlib.corpus("model")
    _, nc = vlib.corpus("nc")
    rnd = gen_random(tier, seed, "overlap", "c12", 150, 1500, maxfields=8, custom=True)
    decls = copyd(model) + copyd(nc) + copyd(rnd)
    decls = vlib.vary_names(decls)
    declfile = save_decls("C12", decls)
    legs = [trace_leg(pid, tier, seed, "model+nc+rand(overlapping)", decls, declfile, "history", q(tier, 3, 12), crate="rt-c12")]
    # histories over fields whose list names a bit twice: the covered bits are the implementation's business (Register!WithDup),
    # every other bit still obeys last-write-wins
    _, dup = vlib.corpus("dup")
    dups = copyd(dup)
    dfile = save_decls("C12dup", dups)
    legs.append(trace_leg(pid, tier, seed, "self-overlapping range lists", dups, dfile, "history", 1, crate="rt-c12d", binding_events=("raw", "new")))
    PROOFS["C12"] = tlaps_leg(["LastWriteWinsStep", "DisjointCommute", "Frame"])
    SIMS["C12"] = sim_leg(pid, tier, seed, "rt-c12", decls, declfile, q(tier, 60, 1500), q(tier, 30, 60))
    finish(pid, tier, seed, t0, mc, legs,
           "random histories (60 operations each: with_, set_, reads, copies, re-wraps, resets, out-of-range indices) over two object "
           "slots on the model declarations, Q-nc and seeded DeclGen layouts with OVERLAPPING fields; the specification's shadow "
           "register (bit-by-bit last-write-wins) is compared with the logged raw value after every step and every getter observes it",
           COMMON_ASSUMPTIONS)


def c13(pid, tier, seed, t0):
    mc = [mc_builder("C13")]
    _, bld = vlib.corpus("bld")
    rnd = [d for d in gen_random(tier, seed, "valid", "c13", 150, 1500, custom=True) if builder_sound_py(d)]
    decls = copyd(bld) + copyd(rnd)
    decls = vlib.vary_names(decls)
    declfile = save_decls("C13", decls)
    legs = [trace_leg(pid, tier, seed, "bld+rand(valid, builder offered)", decls, declfile, "build", q(tier, 2, 40), builder=True, crate="rt-c13")]
    # the recorded builder chain of every layout, decided for ALL argument tuples
    sym(pid, decls, ops=("build",))
    finish(pid, tier, seed, t0, mc, legs,
           "builder layouts (complete covers without default; defaults with bits outside every field; read-only gaps; arrays incl. "
           "bool arrays and K=32; non-contiguous; signed; enum) plus seeded valid declarations: argument tuples all-zero, all-ones, "
           "walking, index-coded, random; build() result compared with the fold of Write over the writable fields from DEFAULT/zero",
           COMMON_ASSUMPTIONS + ["which seeded declarations offer a builder is decided by Decl!BuilderSound re-implemented in "
                                 "gen/checks.py only to SELECT inputs; C14 checks that rule itself"])


def builder_sound_py(d):
    """input selection only (mirror of Decl!BuilderSound for seeded declarations; C14 checks the rule itself)"""
    seen = set()
    for f in d["fields"]:
        if f["access"] not in ("w", "rw"):
            continue
        cnt = f["array"][0] if f["array"] else 1
        for i in range(cnt):
            p = rustgen.positions(f, i)
            if len(set(p)) != len(p) or seen & set(p):
                return False
            seen |= set(p)
    return bool(d["def"]) or seen == set(range(d["n"]))


def mc_builder(tag):
    r = vlib.tlc("MC_Builder", "MC_Builder.cfg", workers=4, timeout=900, heap="4g", extra=["-coverage", "1"])
    if r["rc"] != 0 or "No error has been found" not in r["out"]:
        raise ToolError("design-level model check of Builder.tla failed:\n" + r["out"][-3000:])
    return {"config": "MC_Builder", "distinct": r["distinct"], "generated": r["generated"], "wall_s": round(r["wall"], 1),
            "invariants": ["BuildIsFold", "BuildOnlyWhenComplete", "MaskIsCover"]}


def c16(pid, tier, seed, t0):
    mc = [mc_register("C16", "SmallDecls", ["a", "b"], ["TypeOK", "UpperBitsZero"], []),
          mc_register("C16d", "DupDecls", ["a", "b"], ["TypeOK", "UpperBitsZero", "LastWriteWins"], [], idle_ok=("NxDefault", "Default", "NxOOB", "OOB"))]
    _, star = vlib.corpus("star")
    _, arr = vlib.corpus("arr")
    _, nc = vlib.corpus("nc")
    _, cust = vlib.corpus("cust")
    rnd = gen_random(tier, seed, "overlap", "c16", 100, 1000, custom=True)
    # custom-typed fields as wide as the storage take the full-width special case of the generator: never thinned away
    fullw = [d for d in cust if any(rustgen.width(f) == d["s"] for f in d["fields"])]
    decls = copyd(star) + copyd(arr) + copyd(nc) + copyd(rnd) + copyd([d for d in cust if d not in fullw])[:: q(tier, 3, 1)]
    fullw = copyd(fullw)
    if tier == "thorough":
        decls += tall_chunks(lambda d, f: f["ranges"][0][1] >= d["n"] - 2 or f["ranges"][0][0] <= 1 or rustgen.width(f) in (1, 7, 8, 9, 31, 32, 33, 63, 64, 65))
    if tier == "quick":
        for d in decls:
            if len(d["fields"]) > 30:
                top = [f for f in d["fields"] if max(h for _, h in f["ranges"]) + ((f["array"][0] - 1) * (f["stride"][0] if f["stride"] else rustgen.width(f)) if f["array"] else 0) >= d["n"] - 1
                       or rustgen.width(f) >= d["s"] - 1]
                rest = [f for f in d["fields"] if f not in top]
                d["fields"] = top[::2] + rest[::16]
        decls = [d for k, d in enumerate(decls) if k < 45 or k % 3 == 0]
    decls += fullw
    decls = vlib.vary_names(decls)
    declfile = save_decls("C16", decls)
    leg = trace_leg(pid, tier, seed, "star+arr+nc+rand", decls, declfile, "get,write", q(tier, 1, 3), profiles=("dev", "release"), crate="rt-c16")
    # overflow outcomes for ALL inputs: a shift by >= the width or an extract_uN contract violation on any evaluated path of
    # any recorded accessor body (decided symbolically; profile-independent by construction)
    sym(pid, decls)
    # accepted declarations whose range lists name a bit twice: the value is outside C04's guarantee (Register!WithDup takes
    # whatever state the implementation produced), but the calls must be total and the same in both profiles
    _, dup = vlib.corpus("dup")
    dups = copyd(dup)
    dfile = save_decls("C16dup", dups)
    dleg = trace_leg(pid, tier, seed, "self-overlapping range lists", dups, dfile, "get,write", 1, profiles=("dev", "release"), crate="rt-c16d",
                     binding_events=("raw", "new"))   # the value of a get/with/set is unspecified here: nothing to corrupt
    for lg in (leg, dleg):
        dg = lg["digests"]
        if dg["dev"] != dg["release"]:
            info = {"property": pid, "kind": "digest", "digests": dg, "corpus": lg.get("corpus", ""),
                    "explanation": "both traces are behaviours of the specification, yet they differ between profiles"}
            raise Violation(write_replay(pid, info))
    finish(pid, tier, seed, t0, mc, [leg, dleg],
           "the C01-C05 drivers (edge-pattern reads, with_/set_ writes, out-of-range indices) on Q-star/Q-arr/Q-nc and seeded "
           "declarations executed under profile dev (opt-level 0, overflow checks and debug assertions on) and release (opt-level 3, "
           "both off); BOTH traces validated step by step (any panic other than an out-of-range index, any wrapped shift, is a "
           "rejected event) and their digests compared; plus Q-dup: range lists that name a bit twice (accepted by the macro; "
           "value unspecified, but no panic/overflow and identical in both profiles)", COMMON_ASSUMPTIONS,
           extra={"profiles": {"dev": "opt-level=0 overflow-checks=on debug-assertions=on", "release": "opt-level=3 overflow-checks=off debug-assertions=off"}})


def c19(pid, tier, seed, t0):
    mc = [mc_register("C19", "SmallDecls", ["a", "b"], ["TypeOK"], ["DeclConstant"])]
    _, dbg = vlib.corpus("dbg")
    rnd = []
    for d in gen_random(tier, seed, "overlap", "c19", 80, 800, custom=True):
        fs = [f for f in d["fields"] if not f["array"]]
        if fs:
            d = dict(d, fields=[dict(f, access="r" if f["access"] == "w" else f["access"]) for f in fs], debug=True)
            rnd.append(d)
    decls = copyd(dbg) + copyd(rnd)
    decls = vlib.vary_names(decls)
    declfile = save_decls("C19", decls)
    legs = [trace_leg(pid, tier, seed, "dbg+rand", decls, declfile, "debug", q(tier, 2, 10), crate="rt-c19")]
    # "(others do not compile with `debug`)": write-only / unspecified-access / array fields next to printable ones, and controls
    import verdicts

    def fld(name, kind, tw, lo, acc, arr=None):
        return {"name": name, "kind": kind, "tw": tw, "ty": 0, "ranges": [[lo, lo + tw - 1]], "list": False, "array": arr or [], "stride": [], "access": acc}
    fam = []
    for n in (8, 32, 24):
        for odd in (fld("key", "uarb", 3, 4, "w"), fld("key", "bool", 1, 4, "none"), fld("key", "uarb", 2, 4, "rw", [2]), fld("key", "bool", 1, 4, "r", [3]),
                    fld("key", "uarb", 3, 4, "r"), fld("key", "bool", 1, 7, "rw")):
            for first in (True, False):
                fs = [fld("mode", "uarb", 3, 0, "rw"), odd]
                fam.append({"id": 0, "name": "T", "n": n, "s": rustgen.storage_of(n), "def": [[]] if n == 32 else [], "defform": "lit", "defsyn": "=",
                            "debug": True, "fields": fs if first else fs[::-1], "enums": [], "nested": []})
    vfile = verdicts.save("C19v", fam)
    units = [verdicts.decl_unit(d) for d in fam]
    verdicts.batch_build("v-c19", units, "dev")
    vev = [{"ev": "dbgverdict", "decl": d["id"], "accepted": bool(u.compiles), "source": "\n".join(rustgen.decl_source(d)),
            "diagnostic": (u.diag or {}).get("rendered", "")} for d, u in zip(fam, units)]
    vstates, known = verdicts.validate_events(pid, "v-c19", vev, vfile, fam,
                                              lambda ev: "%s:debug:%s:%s" % ("accept" if ev["accepted"] else "reject", fam[ev["decl"]]["fields"][-1]["access"], "array" if any(f["array"] for f in fam[ev["decl"]]["fields"]) else "scalar"))
    for line in known:
        print(line)
    mc.append({"config": "verdict events: `debug` with a write-only / inaccessible / array field must not compile (Decl!DebugApplies), controls compile",
               "distinct": vstates, "generated": len(vev), "wall_s": 0})
    finish(pid, tier, seed, t0, mc, legs,
           "debug bitfields with 0..8 readable scalar fields of every kind (bool, uN, native, signed, enum, Option<enum> Ok and Err, "
           "nested debug bitfield, r# identifier, non-contiguous) plus seeded layouts: {:?} and {:#?} at pattern and random raws; the "
           "text must be DebugFmt!ComposeLines(name, field names, getter renderings) and each small getter rendering must be the "
           "specification's value; same raw on a second object => same text", COMMON_ASSUMPTIONS)


REGISTRY = {"C01": c01, "C02": c02, "C03": c03, "C04": c04, "C05": c05, "C06": c06, "C08": c08, "C11": c11, "C12": c12,
            "C13": c13, "C16": c16, "C19": c19}
