"""Per-property decision procedures (DESIGN.md section 6)."""
import json
import os
import re
import shutil
import time

import rustgen
import vlib
from vlib import ToolError, log

VERIF = vlib.VERIF
WORK = vlib.WORK


# =============================================================================================
# model-checking leg (design level): TLC explores Register.tla exhaustively on the model declarations
def mc_register(tag, declset, slots, invariants, properties, workers=8, timeout=1500):
    cfg = os.path.join(WORK, "cfg", "MC_%s.cfg" % tag)
    os.makedirs(os.path.dirname(cfg), exist_ok=True)
    text = "CONSTANTS\n  Slot = {%s}\n  DeclSet <- %s\nSPECIFICATION Spec\nVIEW View\n" % (
        ", ".join('"%s"' % s for s in slots), declset)
    if invariants:
        text += "INVARIANTS " + " ".join(invariants) + "\n"
    if properties:
        text += "PROPERTIES " + " ".join(properties) + "\n"
    text += "CHECK_DEADLOCK FALSE\n"
    open(cfg, "w").write(text)
    r = vlib.tlc("MC_Register", cfg, workers=workers, timeout=timeout, heap="6g", extra=["-coverage", "1"])
    if r["rc"] != 0 or "No error has been found" not in r["out"]:
        raise ToolError("design-level model check failed (%s): the SPECIFICATION violates its own property\n%s" % (tag, r["out"][-3000:]))
    acts = {}
    for m in re.finditer(r"^<(\w+) line \d+, col \d+ to line \d+, col \d+ of module \w+(?: \([\d ]+\))?>: (\d+):(\d+)", r["out"], re.M):
        acts[m.group(1)] = {"distinct": int(m.group(2)), "taken": int(m.group(3))}
    never = [a for a, c in acts.items() if c["taken"] == 0 and a != "Init"]
    if never:
        raise ToolError("vacuity: actions never taken in MC run %s: %s" % (tag, never))
    return {"config": tag, "declset": declset, "slots": len(slots), "distinct": r["distinct"], "generated": r["generated"],
            "invariants": invariants, "properties": properties, "actions": acts, "wall_s": round(r["wall"], 1)}


# =============================================================================================
# implementation -> specification: recorded traces validated by TLC (RegisterTrace.tla)
def decl_by_id(decls, i):
    for d in decls:
        if d["id"] == i:
            return d
    raise KeyError(i)


def make_rt_crate(name, decls, builder=False):
    flags = [builder] * len(decls)
    src, linemap = rustgen.main_source(decls, flags)
    vlib.write_crate(name, src)
    return linemap


def build_rt(name, decls, profile, pid):
    ok, diags = vlib.cargo_build(name, profile)
    return ok, diags


class Violation(Exception):
    def __init__(self, replay):
        self.replay = replay


def write_replay(pid, info):
    d = os.path.join(WORK, "replay")
    os.makedirs(d, exist_ok=True)
    path = os.path.join(d, "%s-%d.json" % (pid, int(time.time() * 1000) % 100000000))
    json.dump(info, open(path, "w"), indent=1)
    return path


def compile_violation(pid, corpus_name, decls, linemap, diags, crate):
    """A diagnostic inside a Valid declaration's module: the accessor the property talks about does
    not exist / does not have the declared type (DESIGN 7.4)."""
    d0 = diags[0]
    hit = None
    for lm in linemap:
        if lm["mod_first"] <= d0["line"] <= lm["mod_last"]:
            hit = lm
            break
    if hit is None or not d0["file"].endswith("main.rs"):
        raise ToolError("compile error that cannot be attributed to a declaration:\n" + d0["rendered"])
    d = decl_by_id(decls, hit["id"])
    info = {"property": pid, "kind": "compile", "corpus": corpus_name, "decl": d,
            "rust_source": "\n".join(rustgen.decl_source(d)),
            "diagnostic": d0["rendered"], "in_declaration": hit["decl_first"] <= d0["line"] <= hit["decl_last"],
            "expected": "a declaration that is Valid by spec/Decl.tla compiles and offers the API of Decl!Api with the declared types",
            "builder": False}
    return write_replay(pid, info)


def trace_leg(pid, tier, seed, corpus_name, decls, declfile, modes, budget, profiles=("dev",), builder=False, crate=None,
              shard_bytes=1500000):
    """Build the corpus with the real macro from REPO's working tree, record, validate.  Returns stats.
    Raises Violation (after reproducing) when the trace of the real code is not a behaviour of the spec."""
    crate = crate or ("rt-" + corpus_name)
    linemap = make_rt_crate(crate, decls, builder)
    stats = {"corpus": corpus_name, "declarations": len(decls), "fields": sum(len(d["fields"]) for d in decls), "runs": []}
    digests = {}
    for profile in profiles:
        t0 = time.time()
        ok, diags = vlib.cargo_build(crate, profile)
        if not ok:
            raise Violation(compile_violation(pid, corpus_name, decls, linemap, diags, crate))
        tb = time.time() - t0
        outdir = os.path.join(WORK, "traces", "%s-%s-%s" % (pid, corpus_name, profile))
        n, shards = vlib.record(crate, profile, modes, budget, seed, outdir, shard_bytes=shard_bytes)
        t1 = time.time()
        results = vlib.validate(shards, declfile)
        tv = time.time() - t1
        rej = [r for r in results if r["status"] == "rejected"]
        if rej:
            r = rej[0]
            evs = vlib.events_until(r["shard"], r["line"])
            decl_id = evs[0]["decl"]
            d = decl_by_id(decls, decl_id)
            # reproduce in a fresh process on that declaration alone before raising the alarm
            odir2 = outdir + "-confirm"
            n2, shards2 = vlib.record(crate, profile, modes, budget, seed, odir2, only=decl_id, shard_bytes=shard_bytes)
            res2 = vlib.validate(shards2, declfile)
            rej2 = [x for x in res2 if x["status"] == "rejected"]
            if not rej2:
                raise ToolError("trace rejection did not reproduce (flaky harness?) at %s line %d" % (r["shard"], r["line"]))
            r2 = rej2[0]
            evs2 = vlib.events_until(r2["shard"], r2["line"])
            info = {"property": pid, "kind": "trace", "corpus": corpus_name, "decl": d, "profile": profile, "modes": modes,
                    "budget": budget, "seed": seed, "builder": builder,
                    "rust_source": "\n".join(rustgen.decl_source(d)),
                    "failing_event": evs2[-1],
                    "spec_state_before_failing_event": r2.get("state", ""),
                    "events_since_reset": evs2[-40:],
                    "explanation": "the failing event is not a step of spec/Register.tla from the shown state: the logged "
                                   "result/post-state differs from the specification's, or an invariant fails after it"}
            raise Violation(write_replay(pid, info))
        st = vlib.trace_stats(shards)
        st.update({"profile": profile, "shards": len(shards), "build_s": round(tb, 1), "validate_s": round(tv, 1),
                   "tlc_states": sum(r["generated"] for r in results)})
        stats["runs"].append(st)
        # profile independence (C16): the recorded traces must be byte-identical across profiles
        import hashlib
        h = hashlib.sha256()
        for s in shards:
            h.update(open(s, "rb").read())
        digests[profile] = h.hexdigest()
    stats["digests"] = digests
    return stats


def replay(pid, path):
    info = json.load(open(path))
    if info.get("kind") == "trace":
        d = dict(info["decl"])
        d["seed_id"] = d["id"]
        decls = [d]
        declfile = os.path.join(WORK, "replay", "decl-%s.json" % pid)
        # TLC indexes declarations by id+1: pad so that the id is preserved
        pad = [dict(d, id=k) for k in range(d["id"])] + [d]
        json.dump(pad, open(declfile, "w"))
        crate = "replay"
        make_rt_crate(crate, decls, info.get("builder", False))
        ok, diags = vlib.cargo_build(crate, info["profile"])
        if not ok:
            print(diags[0]["rendered"])
            print("VIOLATION property=%s replay=%s" % (pid, path))
            return 1
        outdir = os.path.join(WORK, "traces", "replay-" + pid)
        n, shards = vlib.record(crate, info["profile"], info["modes"], info["budget"], info["seed"], outdir)
        res = vlib.validate(shards, declfile)
        rej = [r for r in res if r["status"] == "rejected"]
        if rej:
            evs = vlib.events_until(rej[0]["shard"], rej[0]["line"])
            print("first event that is not a step of the specification:", json.dumps(evs[-1]))
            print("specification state before it:", rej[0].get("state"))
            print("VIOLATION property=%s replay=%s" % (pid, path))
            return 1
        print("replay: trace accepted (%d events) -- not reproduced on the current tree" % n)
        return 0
    if info.get("kind") == "compile":
        d = info["decl"]
        crate = "replay"
        make_rt_crate(crate, [d], info.get("builder", False))
        ok, diags = vlib.cargo_build(crate, "dev")
        if not ok:
            print(diags[0]["rendered"])
            print("VIOLATION property=%s replay=%s" % (pid, path))
            return 1
        print("replay: compiles on the current tree -- not reproduced")
        return 0
    import verdicts
    return verdicts.replay(pid, info, path)


# =============================================================================================
def finish(pid, tier, seed, t0, mc, legs, rule, assumptions, extra=None, level="model_checking"):
    states = sum(m["distinct"] for m in mc)
    transitions = sum(m["generated"] for m in mc)
    traces = 0
    evaluations = 0
    distinct = 0
    samples = []
    for leg in legs:
        for run in leg.get("runs", []):
            states += run["tlc_states"]
            transitions += run["events"]
            traces += run["kinds"].get("reset", 0)
            evaluations += run["events"]
            distinct += run["distinct_nontrivial"]
            if len(samples) < 4:
                samples.extend(run["samples"][:2])
    cov = {"states": states, "transitions": transitions, "traces_validated_against_impl": traces,
           "evaluations": evaluations, "distinct_nontrivial": distinct, "rule": rule, "samples": samples,
           "model_checking": mc,
           "trace_validation": [{k: v for k, v in leg.items() if k != "runs"} | {"runs": [{k: v for k, v in r.items() if k != "samples"} for r in leg.get("runs", [])]} for leg in legs],
           "checker_cmd": "tlc -workers 1 -config RegisterTrace.cfg RegisterTrace.tla (per shard); tlc MC_Register.tla (design level)",
           "repo": vlib.REPO}
    if extra:
        cov.update(extra)
    vlib.write_evidence(pid, tier, seed, level, cov, assumptions, time.time() - t0)


COMMON_ASSUMPTIONS = [
    "TLC/SANY evaluate the TLA+ modules correctly; rustc/cargo build the corpus from the working tree of the repository",
    "generated glue is pure method-call forwarding plus bit-pattern conversions by `as`, ::new and .value() (gen/rustgen.py)",
    "programs (declarations) are enumerated, not proved over: see coverage.trace_validation for the corpus composition",
]


def run(pid, tier, seed, t0):
    fn = REGISTRY.get(pid)
    if fn is None:
        print("TOOL-ERROR: no check registered for", pid)
        return 2
    try:
        fn(pid, tier, seed, t0)
    except Violation as v:
        try:
            vlib.write_evidence(pid, tier, seed, "model_checking",
                                {"evaluations": 1, "distinct_nontrivial": 2, "states": 1, "transitions": 1,
                                 "traces_validated_against_impl": 0, "samples": [{"violation_replay": v.replay}],
                                 "rule": "run stopped at the first reproduced violation"},
                                COMMON_ASSUMPTIONS, time.time() - t0, violations=1)
        except Exception:
            pass
        print("VIOLATION property=%s replay=%s" % (pid, v.replay))
        return 1
    print("OK property=%s tier=%s wall=%.1fs" % (pid, tier, time.time() - t0))
    return 0


# =============================================================================================
def q(tier, quick, thorough):
    return quick if tier == "quick" else thorough


def sub(decls, pred):
    """restrict declarations to the fields satisfying pred (keeps ids)"""
    out = []
    for d in decls:
        fs = [f for f in d["fields"] if pred(d, f)]
        if fs:
            dd = dict(d)
            dd["fields"] = fs
            out.append(dd)
    return out


def save_decls(tag, decls):
    p = os.path.join(WORK, "corpus", "use-%s.json" % tag)
    os.makedirs(os.path.dirname(p), exist_ok=True)
    # TLC indexes by id + 1
    for k, d in enumerate(decls):
        d["id"] = k
    json.dump(decls, open(p, "w"))
    return p


def c01(pid, tier, seed, t0):
    mc = [mc_register("C01", "SmallDecls", ["a", "b"], ["TypeOK", "GetArith", "UpperBitsZero"], [])]
    _, star = vlib.corpus("star")
    _, model = vlib.corpus("model")
    decls = [dict(d) for d in star] + [dict(d) for d in model]
    declfile = save_decls("C01", decls)
    legs = [trace_leg(pid, tier, seed, "star+model", decls, declfile, "get,tableget", q(tier, 1, 6), crate="rt-c01")]
    finish(pid, tier, seed, t0, mc, legs,
           "every readable contiguous field of Q-star (22 bases x boundary widths x boundary positions x type variants) read at edge-"
           "pattern raws (0, ones, field mask, complement, walking 1/0 around every range edge, alternating, random) plus exhaustive "
           "raw tables for storage 8; an evaluation is one recorded call; distinct non-trivial = distinct (declaration, call, field, "
           "index, result class) with a non-zero result", COMMON_ASSUMPTIONS)


REGISTRY = {"C01": c01}
