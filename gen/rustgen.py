"""Declaration JSON (the records of spec/Decl.tla) -> Rust source using the real #[bitfield]/#[bitenum].

Pure text generation.  The glue it emits is mechanical method-call forwarding with the declared
types ascribed (`let v: u5 = x.f();`), plus bit-pattern <-> field-type conversions by `as`, `::new`
and `.value()`.  It contains no expectation about results.
"""
import json
import re

NATIVE = (8, 16, 32, 64, 128)


def storage_of(n):
    for s in NATIVE:
        if n <= s:
            return s
    raise ValueError(n)


def bits_to_int(bits):
    v = 0
    for b in bits:
        v |= 1 << b
    return v


def uty(n):
    return "u%d" % n


def base_ty(d):
    return uty(d["n"])


def is_native(n):
    return n in NATIVE


def conv_from_u128(expr, n):
    """u128 pattern -> value of type u<n> (arbitrary-int when n is not native)."""
    if is_native(n):
        return "(%s as u%d)" % (expr, n)
    return "arbitrary_int::u%d::new(%s as u%d)" % (n, expr, storage_of(n))


def conv_to_u128(expr, n):
    if is_native(n):
        return "(%s as u128)" % expr
    return "(%s.value() as u128)" % expr


def enum_of(d, f):
    return d["enums"][f["ty"] - 1]


def nested_of(d, f):
    return d["nested"][f["ty"] - 1]


def field_type(d, f):
    k = f["kind"]
    if k == "bool":
        t = "bool"
    elif k in ("uarb", "unat"):
        t = uty(f["tw"])
    elif k == "inat":
        t = "i%d" % f["tw"]
    elif k == "enum":
        t = enum_of(d, f)["name"]
    elif k == "optenum":
        t = "Option<%s>" % enum_of(d, f)["name"]
    elif k == "nested":
        t = nested_of(d, f)["name"]
    else:
        raise ValueError(k)
    return t


def setter_type(d, f):
    if f["kind"] == "optenum":
        return enum_of(d, f)["name"]
    return field_type(d, f)


def getter_type(d, f):
    if f["kind"] == "optenum":
        # Ok carries the enum; the integer type of the Err payload is not pinned by the glue (`_`)
        return "Result<%s, _>" % enum_of(d, f)["name"]
    return field_type(d, f)


def rust_ident(name):
    return name


def strip_raw(name):
    return name[2:] if name.startswith("r#") else name


def attr_text(f):
    if f.get("attr_raw"):
        return "#[%s]" % f["attr_raw"]
    rs = f["ranges"]
    parts = []
    form = f.get("attr", "")
    if f["list"]:
        items = []
        for lo, hi in rs:
            if lo == hi and not f.get("list_long", False):
                items.append("%d" % lo)
            else:
                items.append("%d..=%d" % (lo, hi))
        parts.append("[" + ", ".join(items) + "]")
        head = "bits"
    else:
        lo, hi = rs[0]
        single = (lo == hi) and (form == "bit" or (form == "" and f["kind"] == "bool"))
        if single:
            parts.append("%d" % lo)
            head = "bit"
        else:
            parts.append("%d..=%d" % (lo, hi))
            head = "bits"
    if f["access"] != "none":
        parts.append(f["access"])
    if f["stride"]:
        sep = ":" if f.get("legacy", False) else " ="
        parts.append("stride%s %d" % (sep, f["stride"][0]))
    return "#[%s(%s)]" % (head, ", ".join(parts))


def native_width(n):
    return 8 if n <= 8 else 16 if n <= 16 else 32 if n <= 32 else 64 if n <= 64 else 128


def discr_literal(form, val, n=16):
    """spellings of an enum discriminant literal"""
    if form == "hex":
        return "0x%X" % val
    if form == "bin":
        return "0b{:b}".format(val)
    if form == "oct":
        return "0o{:o}".format(val)
    if form == "suf":
        return "%du%d" % (val, native_width(n))            # the enum carries the matching #[repr]
    if form == "under":
        t = "%d" % val
        return (t[0] + "_" + t[1:]) if len(t) > 1 else t + "_"
    return "%d" % val


def default_literal(form, val, s):
    """the spellings of an integer literal a user may write for `default = ...`"""
    def under(txt, k):
        out = ""
        for i, ch in enumerate(reversed(txt)):
            if i and i % k == 0:
                out = "_" + out
            out = ch + out
        return out
    if form == "dec":
        return "%d" % val
    if form == "dec_":
        return under("%d" % val, 3)
    if form == "bin_":
        return "0b" + under("{:b}".format(val), 4)
    if form == "oct":
        return "0o{:o}".format(val)
    if form == "hexsuf":
        return "0x%xu%d" % (val, s)
    if form == "hexsuf_":
        return "0x%s_u%d" % (under("%X" % val, 4), s)
    if form == "decsuf":
        return "%du%d" % (val, s)
    if form == "binsuf":
        return "0b%s_u%d" % (under("{:b}".format(val), 4), s)
    return "0x%x" % val


def default_variant(e):
    """index of the variant that carries #[default] when the enum derives Default (e["derive_default"]), else None"""
    if not e.get("derive_default"):
        return None
    for k, v in enumerate(e["variants"]):
        if v.get("cfg", "none") == "none":
            return k
    return None


def decl_field_type(d, f):
    """the field's type as written in the DECLARATION: arbitrary-int types may be spelled through a path"""
    t = field_type(d, f)
    if f["kind"] == "uarb" and f.get("tyspell"):
        t = f["tyspell"] + t
    if f["kind"] == "optenum" and f.get("optspell"):
        t = f["optspell"] + t                       # ::core::option::Option<E>
    return t


def hostile_items(d):
    """user items next to the declaration that generated code must not be confused by: a PRIVATE trait implemented for the
    bitfield with by-value methods named like the fields (a by-value receiver inside generated code would pick these instead
    of the getters), and constants named like upper-case fields (a generated parameter named after the field would turn into
    a constant pattern)"""
    names = [f["name"] for f in d["fields"]]
    out = ["trait HostileByValue {"]
    out += ["    fn %s(self) -> &'static str;" % n for n in names]
    out += ["}", "impl HostileByValue for %s {" % d["name"]]
    out += ["    fn %s(self) -> &'static str { \"hijacked\" }" % n for n in names]
    out += ["}"]
    for n in names:
        if n.upper() == n and n.lower() != n and not n.startswith("r#") and n not in ("MASK", "CLEAR_MASK"):
            out.append("#[allow(dead_code)] const %s: u32 = 3;" % n)
    return out


def decl_source(d, doc=False, derive_debug_enums=True, vis=None):
    """Only the user-written declaration (enums, nested bitfields, the bitfield)."""
    if vis is None:
        vis = d.get("vis", "pub ")
    out = []
    for e in d["enums"]:
        if doc:
            out.append("/// enum %s" % e["name"])
        args = [("::core::primitive::" if e.get("storage_path") and e["n"] in (8, 16, 32, 64) else "") + uty(e["n"])]
        if e["exh"] != "omitted":
            args.append("exhaustive%s %s" % (":" if e.get("exh_colon") else " =", e["exh"]))
        if e.get("args_rev"):
            args = args[::-1]
        out.append("#[bitbybit::bitenum(%s)]" % ", ".join(args))
        if derive_debug_enums:
            out.append("#[derive(Debug, PartialEq, Eq)]")
        dflt = default_variant(e)
        if dflt is not None:
            out.append("#[derive(Default)]")            # a derive with a HELPER attribute (#[default]) on one variant
        if any(b >= 63 for v in e["variants"] for b in v["d"]):
            out.append("#[repr(u64)]")  # Rust's own rule: discriminants default to isize
        elif any(v.get("form") == "suf" for v in e["variants"]):
            out.append("#[repr(u%d)]" % native_width(e["n"]))
        out.append("%senum %s {" % (vis, e["name"]))
        for v in e["variants"]:
            if doc or v.get("doc"):
                out.append("    /// variant")
            for a in v.get("attrs", []):
                out.append("    " + a)
            if dflt is not None and v is e["variants"][dflt]:
                out.append("    #[default]")
            if v.get("cfg") == "on":
                out.append("    #[cfg(all())]")
            elif v.get("cfg") == "off":
                out.append("    #[cfg(any())]")
            elif v.get("cfg") == "onoff":
                out.extend(["    #[cfg(all())]", "    #[cfg(any())]"])
            elif v.get("cfg") == "offon":
                out.extend(["    #[cfg(any())]", "    #[cfg(all())]"])
            out.append("    %s = %s," % (v["name"], discr_literal(v.get("form", "lit"), bits_to_int(v["d"]), e["n"])))
        out.append("}")
    for nd in d["nested"]:
        if doc:
            out.append("/// nested %s" % nd["name"])
        extra = ", debug" if nd.get("debug", True) else ""
        out.append("#[bitbybit::bitfield(%s%s)]" % (uty(nd["n"]), extra))
        out.append("%sstruct %s {" % (vis, nd["name"]))
        if doc:
            out.append("    /// all bits")
        out.append("    #[bits(0..=%d, rw)]" % (nd["n"] - 1))
        out.append("    v: %s," % uty(nd["n"]))
        out.append("}")
    args = [base_ty(d)]
    if d["def"]:
        val = bits_to_int(d["def"][0])
        sep = ":" if d.get("defsyn", "=") == ":" else " ="
        if d.get("defform", "lit") == "const":
            if doc:
                out.append("/// the default")
            dn = d.get("defname", "DEFVAL")          # the user's constant may be called like one of the macro's own items
            out.append("%sconst %s: u%d = 0x%x;" % (vis, dn, d["s"], val))
            args.append("default%s %s" % (sep, dn))
        else:
            args.append("default%s %s" % (sep, default_literal(d.get("defform", "lit"), val, d["s"])))
    if d.get("debug", False):
        args.append("debug")
    if d.get("args_rev"):
        args = args[:1] + args[1:][::-1]          # the options after the base type may come in any order
    # the type's doc comment may stand above #[bitfield], directly below it, or below another (inert) attribute
    docpos = d.get("docpos", d.get("id", 0) % 3) if doc else -1
    if docpos == 0:
        out.append("/// the bitfield")
    out.append("#[bitbybit::bitfield(%s%s)]" % (", ".join(args), "," if d.get("args_trailing") else ""))
    if docpos == 1:
        out.append("/// the bitfield (documented below the macro attribute)")
    for extra in d.get("struct_attrs", []):
        out.append(extra)
    if docpos == 2:
        out.extend(["#[allow(dead_code)]", "/// the bitfield (documented below another attribute)"])
    out.append("%sstruct %s {" % (vis, d["name"]))
    for k, f in enumerate(d["fields"]):
        # a doc comment may legally stand before or after the bit attribute: alternate
        after = (doc or f.get("doc", False)) and k % 2 == 1
        if (doc or f.get("doc", False)) and not after:
            # the spellings of a doc comment: ///, #[doc = ".."], #[doc = concat!(..)] (a macro call as the value), /** .. */
            nm = strip_raw(f["name"])
            out.append(["    /// field %s", "    #[doc = \"field %s\"]", "    #[doc = concat!(\"field \", \"%s\")]", "    /** field %s */"][(k // 2) % 4] % nm)
        # list-form doc attributes are documentation directives, not documentation: the field keeps its whole API (and its
        # line in the Debug output)
        dk = (d.get("id", 0) + k) % 7
        if dk in (3, 5) and not f["name"].startswith("r#"):
            out.append(["    #[doc(alias = \"al_%s\")]" % f["name"], "    #[doc(hidden)]"][dk == 5])
        out.append("    " + attr_text(f))
        if after:
            out.append(["    /// field %s (documented after the attribute)", "    #[doc = concat!(\"field %s\", \" (after, through concat!)\")]"][(k // 2) % 2] % strip_raw(f["name"]))
        t = decl_field_type(d, f)
        if f["array"]:
            t = "[%s; %d]" % (t, f["array"][0])
        # the field's own visibility is not part of the documented interface (accessors are always `pub`): any spelling
        out.append("    %s%s: %s," % (f.get("fvis", ""), f["name"], t))
    out.append("}")
    if d.get("hostile") and d["fields"]:
        out.extend(hostile_items(d))
    return out


def to_field_value(d, f, expr):
    """u128 pattern expression -> expression of the setter's argument type."""
    k = f["kind"]
    if k == "bool":
        return "(%s != 0)" % expr
    if k in ("uarb", "unat"):
        return conv_from_u128(expr, f["tw"])
    if k == "inat":
        return "(%s as u%d as i%d)" % (expr, f["tw"], f["tw"])
    if k in ("enum", "optenum"):
        e = enum_of(d, f)
        arms = ["%d => %s::%s," % (bits_to_int(v["d"]), e["name"], v["name"]) for v in e["variants"]]
        return "(match %s { %s _ => panic!(\"harness: not a variant\") })" % (expr, " ".join(arms))
    if k == "nested":
        nd = nested_of(d, f)
        return "%s::new_with_raw_value(%s)" % (nd["name"], conv_from_u128(expr, nd["n"]))
    raise ValueError(k)


def from_field_value(d, f, expr):
    """expression of the getter's type -> crate::rt::Obs"""
    k = f["kind"]
    if k == "bool":
        return "crate::rt::Obs::Bool(%s)" % expr
    if k in ("uarb", "unat"):
        dec = "%s.to_string()" % expr if f["tw"] <= 16 else "String::new()"
        return "crate::rt::Obs::Bits(%s, %s)" % (conv_to_u128(expr, f["tw"]), dec)
    if k == "inat":
        dec = "%s.to_string()" % expr if f["tw"] <= 16 else "String::new()"
        return "crate::rt::Obs::Bits((%s as u%d) as u128, %s)" % (expr, f["tw"], dec)
    if k == "enum":
        e = enum_of(d, f)
        arms = ["%s::%s => \"%s\"," % (e["name"], v["name"], v["name"]) for v in e["variants"]]
        return "crate::rt::Obs::Var(match %s { %s })" % (expr, " ".join(arms))
    if k == "optenum":
        e = enum_of(d, f)
        arms = ["Ok(%s::%s) => crate::rt::Obs::Ok(\"%s\")," % (e["name"], v["name"], v["name"]) for v in e["variants"]]
        return "(match %s { %s Err(raw) => crate::rt::Obs::Err(crate::rt::RawBits::raw_bits(raw)), })" % (expr, " ".join(arms))
    if k == "nested":
        nd = nested_of(d, f)
        return "crate::rt::Obs::Bits(%s, String::new())" % conv_to_u128("%s.raw_value()" % expr, nd["n"])
    raise ValueError(k)


def positions(f, i=0):
    off = i * (f["stride"][0] if f["stride"] else sum(hi - lo + 1 for lo, hi in f["ranges"])) if f["array"] else 0
    p = []
    for lo, hi in f["ranges"]:
        p.extend(range(lo + off, hi + off + 1))
    return p


def width(f):
    return sum(max(0, hi - lo + 1) for lo, hi in f["ranges"])


def glue_source(d, has_builder):
    """impl crate::rt::Reg for T"""
    T = d["name"]
    n, s = d["n"], d["s"]
    o = []
    o.append("static META: &[crate::rt::FM] = &[")
    for f in d["fields"]:
        legal = ""
        if f["kind"] in ("enum", "optenum"):
            legal = ", ".join(str(bits_to_int(v["d"])) for v in enum_of(d, f)["variants"])
        stride = f["stride"][0] if f["stride"] else width(f)
        o.append(
            "    crate::rt::FM { name: \"%s\", kind: \"%s\", w: %d, count: %d, is_array: %s, readable: %s, writable: %s, legal: &[%s], pos0: &[%s], stride: %d },"
            % (
                strip_raw(f["name"]), f["kind"], width(f), f["array"][0] if f["array"] else 1,
                "true" if f["array"] else "false",
                "true" if f["access"] in ("r", "rw") else "false",
                "true" if f["access"] in ("w", "rw") else "false",
                legal, ", ".join(map(str, positions(f))), stride,
            )
        )
    o.append("];")
    o.append("impl crate::rt::Reg for %s {" % T)
    o.append("    const ID: usize = %d;" % d["id"])
    o.append("    const SEED_ID: usize = %d;" % d.get("seed_id", d["id"]))
    o.append("    const N: u32 = %d;" % n)
    o.append("    const HAS_DEFAULT: bool = %s;" % ("true" if d["def"] else "false"))
    o.append("    const HAS_BUILDER: bool = %s;" % ("true" if has_builder else "false"))
    o.append("    const HAS_DEBUG: bool = %s;" % ("true" if d.get("debug", False) else "false"))
    o.append("    fn meta() -> &'static [crate::rt::FM] { META }")
    o.append("    fn new(raw: u128) -> Self { let v: %s = %s; %s::new_with_raw_value(v) }" % (base_ty(d), conv_from_u128("raw", n), T))
    o.append("    fn raw(&self) -> u128 { let v: %s = self.raw_value(); %s }" % (base_ty(d), conv_to_u128("v", n)))
    o.append("    fn store(&self) -> u128 { if core::mem::size_of::<%s>() != %d { return u128::MAX; } (unsafe { core::mem::transmute_copy::<%s, u%d>(self) }) as u128 }" % (T, s // 8, T, s))
    o.append("    fn zero() -> Self { const Z: %s = %s::ZERO; Z }" % (T, T))
    if d["def"]:
        o.append("    fn default_const() -> Self { const D: %s = %s::DEFAULT; D }" % (T, T))
        o.append("    fn default_trait() -> Self { <%s as Default>::default() }" % T)
        o.append("    #[allow(deprecated)] fn deprecated_new() -> Self { %s::new() }" % T)
    else:
        o.append("    fn default_const() -> Self { panic!(\"harness: no default\") }")
        o.append("    fn default_trait() -> Self { panic!(\"harness: no default\") }")
        o.append("    fn deprecated_new() -> Self { panic!(\"harness: no default\") }")
    # get
    o.append("    fn get(&self, f: usize, i: usize) -> crate::rt::Obs {")
    o.append("        let _ = i;")
    o.append("        match f {")
    for j, f in enumerate(d["fields"]):
        if f["access"] in ("r", "rw"):
            call = "self.%s(%s)" % (f["name"], "i" if f["array"] else "")
            o.append("            %d => { let v: %s = %s; %s }" % (j, getter_type(d, f), call, from_field_value(d, f, "v")))
    o.append("            _ => panic!(\"harness: no getter\"),")
    o.append("        }")
    o.append("    }")
    # with
    o.append("    fn with(&self, f: usize, i: usize, v: u128) -> Self {")
    o.append("        let _ = (i, v);")
    o.append("        match f {")
    for j, f in enumerate(d["fields"]):
        if f["access"] in ("w", "rw"):
            arg = to_field_value(d, f, "v")
            nm = "with_" + strip_raw(f["name"])
            call = "self.%s(%s)" % (nm, ("i, a" if f["array"] else "a"))
            o.append("            %d => { let a: %s = %s; let r: %s = %s; r }" % (j, setter_type(d, f), arg, T, call))
    o.append("            _ => panic!(\"harness: no setter\"),")
    o.append("        }")
    o.append("    }")
    o.append("    fn set(&mut self, f: usize, i: usize, v: u128) {")
    o.append("        let _ = (i, v);")
    o.append("        match f {")
    for j, f in enumerate(d["fields"]):
        if f["access"] in ("w", "rw"):
            arg = to_field_value(d, f, "v")
            nm = "set_" + strip_raw(f["name"])
            call = "self.%s(%s)" % (nm, ("i, a" if f["array"] else "a"))
            o.append("            %d => { let a: %s = %s; %s; }" % (j, setter_type(d, f), arg, call))
    o.append("            _ => panic!(\"harness: no setter\"),")
    o.append("        }")
    o.append("    }")
    # build
    o.append("    fn build(args: &[Vec<u128>]) -> Self {")
    if has_builder:
        o.append("        let _ = args;")
        chain = ["%s::builder()" % T]
        k = 0
        for f in d["fields"]:
            if f["access"] in ("w", "rw"):
                nm = "with_" + strip_raw(f["name"])
                if f["array"]:
                    els = ", ".join(to_field_value(d, f, "args[%d][%d]" % (k, i)) for i in range(f["array"][0]))
                    chain.append(".%s([%s])" % (nm, els))
                else:
                    chain.append(".%s(%s)" % (nm, to_field_value(d, f, "args[%d][0]" % k)))
                k += 1
        chain.append(".build()")
        o.append("        let r: %s = %s;" % (T, "\n            ".join(chain)))
        o.append("        r")
    else:
        o.append("        let _ = args; panic!(\"harness: no builder\")")
    o.append("    }")
    o.append("    fn layout() -> (usize, usize, usize, usize) {")
    o.append("        (core::mem::size_of::<%s>(), core::mem::align_of::<%s>(), core::mem::size_of::<u%d>(), core::mem::align_of::<u%d>())" % (T, T, s, s))
    o.append("    }")
    if d.get("debug", False):
        o.append("    fn debug(&self, alt: bool) -> String { if alt { format!(\"{:#?}\", self) } else { format!(\"{:?}\", self) } }")
        o.append("    fn debug_parts(&self, alt: bool) -> Vec<String> {")
        o.append("        let mut v = Vec::new();")
        for f in d["fields"]:
            o.append("        { let g: %s = self.%s(); v.push(if alt { format!(\"{:#?}\", g) } else { format!(\"{:?}\", g) }); }" % (getter_type(d, f), f["name"]))
        o.append("        v")
        o.append("    }")
    else:
        o.append("    fn debug(&self, _alt: bool) -> String { panic!(\"harness: no debug\") }")
        o.append("    fn debug_parts(&self, _alt: bool) -> Vec<String> { panic!(\"harness: no debug\") }")
    o.append("}")
    return o


def macro_wrapped(d, lines):
    """the same declaration produced by a macro_rules! expansion: the struct's visibility (`vis`), its name and its fields' names
    (`ident`), a literal default and the array lengths (`literal`), a named default (`ident`), the enum inside Option<..> (`ty`)
    all arrive as fragments
    (register-definition macros of HAL crates look like this)"""
    vis = d.get("vis", "pub ")
    head = "%sstruct %s {" % (vis, d["name"])
    k = max(j for j, l in enumerate(lines) if l == head)
    body = list(lines)
    body[k] = "$v struct $s {"
    params, args = ["$v:vis", "$s:ident"], [vis.strip(), d["name"]]
    # the default of #[bitfield(.., default = X ..)]: the attribute line is the last `#[bitbybit::bitfield(` line before the struct
    a = max(j for j in range(k) if body[j].startswith("#[bitbybit::bitfield("))
    m = re.search(r"default( =|:) ([0-9A-Za-z_]+)", body[a])
    if m:
        frag = "$d:ident" if m.group(2) == d.get("defname", "DEFVAL") else "$d:literal"
        body[a] = body[a][:m.start(2)] + "$d" + body[a][m.end(2):]
        params.append(frag)
        args.append(m.group(2))
    for n, f in enumerate(d["fields"][:24]):              # every field's name arrives as an `ident` fragment
        fname = f["name"]
        for j in range(k + 1, len(body)):
            if body[j].startswith("    %s: " % fname):
                rest = body[j][len("    %s: " % fname):]
                params.append("$f%d:ident" % n)
                args.append(fname)
                am = re.match(r"\[(.*); (\d+)\],$", rest)
                if am and n < 4:                              # the length of the first few arrays as a `literal` fragment
                    rest = "[%s; $n%d]," % (am.group(1), n)
                    params.append("$n%d:literal" % n)
                    args.append(am.group(2))
                om = re.search(r"Option<([A-Za-z0-9_:]+)>", rest)
                if om and n % 2 == 0:                         # the type inside Option<..> as a `ty` fragment (a None-delimited group)
                    rest = rest[:om.start(1)] + "$t%d" % n + rest[om.end(1):]
                    params.append("$t%d:ty" % n)
                    args.append(om.group(1))
                body[j] = "    $f%d: " % n + rest
                break
    return (["macro_rules! mk_decl {", "    (%s) => {" % ", ".join(params)] + ["        " + l for l in body]
            + ["    };", "}", "mk_decl!(%s);" % ", ".join(args)])


def module_source(d, has_builder, glue=True):
    # the declaration lives in its own module; the glue in a sibling module, so that only the PUBLIC
    # generated API is reachable from the glue (a private accessor is a compile error here)
    o = ["#[allow(dead_code, unused_imports, unused_variables, unreachable_patterns, clippy::all)]", "pub mod d%d {" % d["id"], "    use arbitrary_int::*;", "    use bitbybit::{bitfield, bitenum};"]
    lines = decl_source(d)
    if d.get("wrap") == "macro":
        lines = macro_wrapped(d, lines)
    first_decl_line = len(o)
    o.extend("    " + l for l in lines)
    last_decl_line = len(o) - 1
    o.append("}")
    if glue:
        o.append("#[allow(dead_code, unused_imports, unused_variables, unreachable_patterns, clippy::all)]")
        o.append("mod g%d {" % d["id"])
        o.append("    use super::d%d::*;" % d["id"])
        o.append("    use arbitrary_int::*;")
        o.extend("    " + l for l in glue_source(d, has_builder))
        o.append("}")
    return o, first_decl_line, last_decl_line


def main_source(decls, builder_flags):
    o = ["// generated by /verif/gen/rustgen.py -- do not edit", "#![allow(unused_parens)]", "mod rt;"]
    linemap = []  # (first_line, last_line, decl id) 1-based inclusive, module extent
    for d, hb in zip(decls, builder_flags):
        m, a, b = module_source(d, hb)
        start = len(o) + 1
        o.extend(m)
        linemap.append({"id": d["id"], "mod_first": start, "mod_last": len(o), "decl_first": start + a, "decl_last": start + b})
    o.append("fn replay_main(path: &str) {")
    o.append("    std::panic::set_hook(Box::new(|_| {}));")
    o.append("    let behs = rt::read_behaviours(path);")
    o.append("    let mut out: Vec<String> = Vec::new();")
    o.append("    let mut steps = 0usize;")
    o.append("    for (no, decl, st) in behs.iter() {")
    o.append("        steps += match decl {")
    for d in decls:
        o.append("            %d => rt::replay_behaviour::<d%d::%s>(*no, st, &mut out)," % (d["id"], d["id"], d["name"]))
    o.append("            _ => panic!(\"unknown declaration\"),")
    o.append("        };")
    o.append("    }")
    o.append("    for l in &out { println!(\"{}\", l); }")
    o.append("    println!(\"REPLAYED {} {}\", behs.len(), steps);")
    o.append("}")
    o.append("fn main() {")
    o.append("    if let Ok(p) = std::env::var(\"REPLAY_FILE\") { replay_main(&p); return; }")
    o.append("    let mut rec = rt::Rec::from_env();")
    o.append("    if let Ok(w) = std::env::var(\"WITNESS_FILE\") {")
    for d in decls:
        o.append("        rt::run_witness::<d%d::%s>(&mut rec, &w);" % (d["id"], d["name"]))
    o.append("        rec.finish(); return;")
    o.append("    }")
    for d in decls:
        o.append("    rt::run_one::<d%d::%s>(&mut rec);" % (d["id"], d["name"]))
    o.append("    rec.finish();")
    o.append("}")
    return "\n".join(o) + "\n", linemap


if __name__ == "__main__":
    import sys
    decls = json.load(open(sys.argv[1]))
    src, lm = main_source(decls, [False] * len(decls))
    sys.stdout.write(src)
