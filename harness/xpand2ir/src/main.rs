// xpand2ir: dumped macro expansions (verif_hooks) -> JSON IR of every generated fn body, for spec/Sym.tla.
// Pure syntax transformation (syn): no evaluation, no expectation. Unknown constructs become {"op":"unknown"} and the
// obligation that meets one is "undecided", never a violation.
use quote::ToTokens;
use std::fmt::Write as _;
use syn::{BinOp, Expr, ImplItem, Item, Lit, Stmt, UnOp};

fn esc(s: &str) -> String {
    let mut o = String::new();
    for c in s.chars() {
        match c {
            '"' => o.push_str("\\\""),
            '\\' => o.push_str("\\\\"),
            '\n' => o.push_str("\\n"),
            c if (c as u32) < 0x20 => {
                let _ = write!(o, "\\u{:04x}", c as u32);
            }
            c => o.push(c),
        }
    }
    o
}
fn unknown(what: &str, t: impl ToTokens) -> String {
    let txt = t.to_token_stream().to_string();
    format!("{{\"op\":\"unknown\",\"what\":\"{}\",\"text\":\"{}\"}}", what, esc(&txt.chars().take(120).collect::<String>()))
}
fn ty_str(t: &syn::Type) -> String {
    t.to_token_stream().to_string().replace(' ', "")
}
fn bits_of(v: u128) -> String {
    let mut s = String::from("[");
    let mut x = v;
    let mut first = true;
    while x != 0 {
        let b = x.trailing_zeros();
        if !first {
            s.push(',');
        }
        first = false;
        let _ = write!(s, "{}", b);
        x &= x - 1;
    }
    s.push(']');
    s
}
fn path_segs(p: &syn::Path) -> String {
    let segs: Vec<String> = p.segments.iter().map(|s| format!("\"{}\"", s.ident)).collect();
    format!("[{}]", segs.join(","))
}
fn lit(l: &Lit) -> String {
    match l {
        Lit::Int(i) => match i.base10_parse::<u128>() {
            Ok(v) => {
                let small = if v < (1u128 << 30) { v as i64 } else { -1 };
                format!("{{\"op\":\"lit\",\"bits\":{},\"n\":{},\"ty\":\"{}\"}}", bits_of(v), small, i.suffix())
            }
            Err(_) => unknown("int literal", l),
        },
        Lit::Bool(b) => format!("{{\"op\":\"blit\",\"v\":{}}}", b.value),
        _ => unknown("literal", l),
    }
}
fn binop(op: &BinOp) -> Option<&'static str> {
    Some(match op {
        BinOp::Shl(_) => "shl",
        BinOp::Shr(_) => "shr",
        BinOp::BitAnd(_) => "and",
        BinOp::BitOr(_) => "or",
        BinOp::BitXor(_) => "xor",
        BinOp::Add(_) => "add",
        BinOp::Sub(_) => "sub",
        BinOp::Mul(_) => "mul",
        BinOp::Div(_) => "div",
        BinOp::Rem(_) => "rem",
        BinOp::Ne(_) => "ne",
        BinOp::Eq(_) => "eq",
        BinOp::Lt(_) => "lt",
        BinOp::Le(_) => "le",
        BinOp::Gt(_) => "gt",
        BinOp::Ge(_) => "ge",
        BinOp::And(_) => "land",
        BinOp::Or(_) => "lor",
        _ => return None,
    })
}
fn expr(e: &Expr) -> String {
    match e {
        Expr::Lit(l) => lit(&l.lit),
        Expr::Paren(p) => expr(&p.expr),
        Expr::Group(g) => expr(&g.expr),
        Expr::Path(p) => {
            if p.path.segments.len() == 1 && p.qself.is_none() {
                format!("{{\"op\":\"var\",\"name\":\"{}\"}}", p.path.segments[0].ident)
            } else {
                format!("{{\"op\":\"path\",\"segs\":{}}}", path_segs(&p.path))
            }
        }
        Expr::Field(f) => {
            let base = f.base.to_token_stream().to_string();
            let member = f.member.to_token_stream().to_string();
            if base == "self" && member == "raw_value" {
                "{\"op\":\"raw\"}".to_string()
            } else if base == "self" && member == "0" {
                "{\"op\":\"self0\"}".to_string()
            } else {
                format!("{{\"op\":\"field\",\"a\":{},\"member\":\"{}\"}}", expr(&f.base), esc(&member))
            }
        }
        Expr::Binary(b) => match binop(&b.op) {
            Some(op) => format!("{{\"op\":\"{}\",\"a\":{},\"b\":{}}}", op, expr(&b.left), expr(&b.right)),
            None => unknown("binary operator", e),
        },
        Expr::Unary(u) => match u.op {
            UnOp::Not(_) => format!("{{\"op\":\"not\",\"a\":{}}}", expr(&u.expr)),
            UnOp::Neg(_) => format!("{{\"op\":\"neg\",\"a\":{}}}", expr(&u.expr)),
            UnOp::Deref(_) => expr(&u.expr),
            _ => unknown("unary operator", e),
        },
        Expr::Cast(c) => format!("{{\"op\":\"cast\",\"a\":{},\"ty\":\"{}\"}}", expr(&c.expr), ty_str(&c.ty)),
        Expr::If(i) => {
            let els = match &i.else_branch {
                Some((_, e)) => expr(e),
                None => "{\"op\":\"unit\"}".to_string(),
            };
            format!("{{\"op\":\"if\",\"c\":{},\"t\":{},\"e\":{}}}", expr(&i.cond), block(&i.then_branch.stmts), els)
        }
        Expr::Block(b) => block(&b.block.stmts),
        Expr::Unsafe(_) => "{\"op\":\"unsafe\"}".to_string(),
        Expr::Call(c) => {
            let path = match &*c.func {
                Expr::Path(p) => path_segs(&p.path),
                _ => return unknown("call target", e),
            };
            let args: Vec<String> = c.args.iter().map(expr).collect();
            format!("{{\"op\":\"call\",\"path\":{},\"args\":[{}]}}", path, args.join(","))
        }
        Expr::MethodCall(m) => {
            let args: Vec<String> = m.args.iter().map(expr).collect();
            format!("{{\"op\":\"mcall\",\"recv\":{},\"name\":\"{}\",\"args\":[{}]}}", expr(&m.receiver), m.method, args.join(","))
        }
        Expr::Struct(s) => {
            if s.fields.len() == 1 && s.fields[0].member.to_token_stream().to_string() == "raw_value" {
                format!("{{\"op\":\"mk\",\"e\":{}}}", expr(&s.fields[0].expr))
            } else {
                unknown("struct literal", e)
            }
        }
        Expr::Assign(a) => {
            if a.left.to_token_stream().to_string().replace(' ', "") == "self.raw_value" {
                format!("{{\"op\":\"assign\",\"e\":{}}}", expr(&a.right))
            } else {
                unknown("assignment", e)
            }
        }
        Expr::Index(i) => format!("{{\"op\":\"index\",\"a\":{},\"i\":{}}}", expr(&i.expr), expr(&i.index)),
        Expr::Reference(r) => expr(&r.expr),
        Expr::Macro(m) => {
            let name = m.mac.path.segments.last().map(|s| s.ident.to_string()).unwrap_or_default();
            format!("{{\"op\":\"macro\",\"name\":\"{}\",\"text\":\"{}\"}}", name, esc(&m.mac.tokens.to_string()))
        }
        Expr::Tuple(t) if t.elems.is_empty() => "{\"op\":\"unit\"}".to_string(),
        _ => unknown("expression", e),
    }
}
// statements fold to the right: let / const / assert wrap the rest of the block
fn block(stmts: &[Stmt]) -> String {
    if stmts.is_empty() {
        return "{\"op\":\"unit\"}".to_string();
    }
    let rest = || block(&stmts[1..]);
    match &stmts[0] {
        Stmt::Local(l) => {
            let (name, ty) = match &l.pat {
                syn::Pat::Ident(i) => (i.ident.to_string(), String::new()),
                syn::Pat::Type(t) => (t.pat.to_token_stream().to_string(), ty_str(&t.ty)),
                _ => return unknown("let pattern", &stmts[0]),
            };
            match &l.init {
                Some(init) => format!(
                    "{{\"op\":\"let\",\"name\":\"{}\",\"ty\":\"{}\",\"e\":{},\"body\":{}}}",
                    esc(&name), ty, expr(&init.expr), rest()
                ),
                None => unknown("let without init", &stmts[0]),
            }
        }
        Stmt::Item(Item::Const(c)) => format!(
            "{{\"op\":\"let\",\"name\":\"{}\",\"ty\":\"{}\",\"e\":{},\"body\":{}}}",
            c.ident, ty_str(&c.ty), expr(&c.expr), rest()
        ),
        Stmt::Macro(m) => {
            let name = m.mac.path.segments.last().map(|s| s.ident.to_string()).unwrap_or_default();
            if name == "assert" {
                match syn::parse2::<Expr>(m.mac.tokens.clone()) {
                    Ok(c) => format!("{{\"op\":\"assert\",\"c\":{},\"body\":{}}}", expr(&c), rest()),
                    Err(_) => unknown("assert", &stmts[0]),
                }
            } else {
                format!("{{\"op\":\"stmtmacro\",\"name\":\"{}\",\"body\":{}}}", name, rest())
            }
        }
        Stmt::Expr(e, semi) => {
            if stmts.len() == 1 {
                if semi.is_some() {
                    format!("{{\"op\":\"seq\",\"e\":{},\"body\":{{\"op\":\"unit\"}}}}", expr(e))
                } else {
                    expr(e)
                }
            } else {
                format!("{{\"op\":\"seq\",\"e\":{},\"body\":{}}}", expr(e), rest())
            }
        }
        other => unknown("statement", other),
    }
}

fn main() {
    let args: Vec<String> = std::env::args().collect();
    let dir = &args[1];
    let out_path = &args[2];
    let mut files: Vec<std::path::PathBuf> = std::fs::read_dir(dir).unwrap().map(|e| e.unwrap().path()).filter(|p| p.extension().map(|x| x == "rs").unwrap_or(false)).collect();
    files.sort();
    let mut out = String::from("[");
    let mut first = true;
    for f in files {
        let text = std::fs::read_to_string(&f).unwrap();
        let fname = f.file_name().unwrap().to_string_lossy().to_string();
        let file = match syn::parse_file(&text) {
            Ok(f) => f,
            Err(e) => {
                eprintln!("parse error in {}: {}", fname, e);
                continue;
            }
        };
        let has_unsafe = text.split(|c: char| !c.is_alphanumeric() && c != '_').any(|w| w == "unsafe");
        for item in &file.items {
            if let Item::Impl(im) = item {
                let self_ty = ty_str(&im.self_ty);
                let trait_name = im.trait_.as_ref().map(|t| t.1.to_token_stream().to_string().replace(' ', "")).unwrap_or_default();
                for ii in &im.items {
                    match ii {
                        ImplItem::Fn(func) => {
                            let params: Vec<String> = func.sig.inputs.iter().map(|a| match a {
                                syn::FnArg::Receiver(r) => format!("{{\"name\":\"self\",\"ty\":\"{}\"}}", if r.mutability.is_some() { "&mut" } else { "&" }),
                                syn::FnArg::Typed(t) => format!("{{\"name\":\"{}\",\"ty\":\"{}\"}}", esc(&t.pat.to_token_stream().to_string()), esc(&ty_str(&t.ty))),
                            }).collect();
                            let ret = match &func.sig.output {
                                syn::ReturnType::Default => String::new(),
                                syn::ReturnType::Type(_, t) => ty_str(t),
                            };
                            let has_doc = func.attrs.iter().any(|a| a.path().is_ident("doc"));
                            let is_pub = matches!(func.vis, syn::Visibility::Public(_));
                            if !first {
                                out.push(',');
                            }
                            first = false;
                            let _ = write!(
                                out,
                                "\n{{\"file\":\"{}\",\"type\":\"{}\",\"trait\":\"{}\",\"fn\":\"{}\",\"const\":{},\"pub\":{},\"doc\":{},\"unsafe_in_file\":{},\"params\":[{}],\"ret\":\"{}\",\"body\":{}}}",
                                esc(&fname), esc(&self_ty), esc(&trait_name), func.sig.ident, func.sig.constness.is_some(), is_pub, has_doc, has_unsafe,
                                params.join(","), esc(&ret), block(&func.block.stmts)
                            );
                        }
                        ImplItem::Const(c) => {
                            if !first {
                                out.push(',');
                            }
                            first = false;
                            let _ = write!(
                                out,
                                "\n{{\"file\":\"{}\",\"type\":\"{}\",\"trait\":\"{}\",\"fn\":\"const:{}\",\"const\":true,\"pub\":{},\"doc\":{},\"unsafe_in_file\":{},\"params\":[],\"ret\":\"{}\",\"body\":{}}}",
                                esc(&fname), esc(&self_ty), esc(&trait_name), c.ident, matches!(c.vis, syn::Visibility::Public(_)),
                                c.attrs.iter().any(|a| a.path().is_ident("doc")), has_unsafe, esc(&ty_str(&c.ty)), expr(&c.expr)
                            );
                        }
                        _ => {}
                    }
                }
            }
        }
    }
    out.push_str("\n]\n");
    std::fs::write(out_path, out).unwrap();
}
