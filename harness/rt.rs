// Runtime recorder shared by every generated corpus crate (copied into the crate as src/rt.rs).
//
// The generated glue implements `Reg` for each bitfield struct by plain method-call forwarding with
// the declared types.  The drivers below call the REAL generated API and log one NDJSON event per
// call, after the call returned (sequential library: return = linearization point), error path
// (panic) included.  Nothing in this file knows what the result of a call should be: the oracle is
// the TLA+ specification that validates the recorded trace.
#![allow(dead_code)]

use std::io::Write;
use std::panic::{catch_unwind, AssertUnwindSafe};

#[derive(Clone, Debug, PartialEq)]
pub enum Obs {
    Bits(u128, String), // bit pattern (+ decimal rendering for signed / small ints, "" otherwise)
    Bool(bool),
    Var(&'static str),
    Ok(&'static str),
    Err(u128),
}

// raw bits of any unsigned integer flavour (native or arbitrary-int): the glue does not pin the exact integer type of an
// `Err(raw)` payload, only that it carries the raw bits
pub trait RawBits {
    fn raw_bits(self) -> u128;
}
macro_rules! raw_bits_impl {
    ($($t:ty),*) => {$(
        impl RawBits for $t { fn raw_bits(self) -> u128 { self as u128 } }
        impl<const BITS: usize> RawBits for arbitrary_int::UInt<$t, BITS> { fn raw_bits(self) -> u128 { self.value() as u128 } }
    )*};
}
raw_bits_impl!(u8, u16, u32, u64, u128);

pub struct FM {
    pub name: &'static str,
    pub kind: &'static str,
    pub w: u32,
    pub count: usize,
    pub is_array: bool,
    pub readable: bool,
    pub writable: bool,
    pub legal: &'static [u128], // for enum-typed fields: the patterns that are variants; empty = any
    pub pos0: &'static [u32],   // bit positions of element 0 (used only to choose interesting inputs)
    pub stride: u32,
}

pub trait Reg: Copy + 'static {
    const ID: usize;
    const SEED_ID: usize;
    const N: u32;
    const HAS_DEFAULT: bool;
    const HAS_BUILDER: bool;
    const HAS_DEBUG: bool;
    fn meta() -> &'static [FM];
    fn new(raw: u128) -> Self;
    fn raw(&self) -> u128;
    fn store(&self) -> u128; // the storage integer itself (transmute), to see bits above N
    fn zero() -> Self;
    fn default_const() -> Self;
    fn default_trait() -> Self;
    fn deprecated_new() -> Self;
    fn get(&self, f: usize, i: usize) -> Obs;
    fn with(&self, f: usize, i: usize, v: u128) -> Self;
    fn set(&mut self, f: usize, i: usize, v: u128);
    fn build(args: &[Vec<u128>]) -> Self;
    fn layout() -> (usize, usize, usize, usize); // size, align, size of native, align of native
    fn debug(&self, alt: bool) -> String;
    fn debug_parts(&self, alt: bool) -> Vec<String>;
}

// ---------------------------------------------------------------------------------------------
// deterministic RNG (xorshift64*), seeded from VERIF_SEED
pub struct Rng(u64);
impl Rng {
    pub fn new(seed: u64) -> Self {
        Rng(seed.wrapping_mul(0x9E3779B97F4A7C15) ^ 0xD1B54A32D192ED03 | 1)
    }
    pub fn next(&mut self) -> u64 {
        let mut x = self.0;
        x ^= x >> 12;
        x ^= x << 25;
        x ^= x >> 27;
        self.0 = x;
        x.wrapping_mul(0x2545F4914F6CDD1D)
    }
    pub fn u128(&mut self) -> u128 {
        ((self.next() as u128) << 64) | self.next() as u128
    }
    pub fn below(&mut self, n: usize) -> usize {
        if n == 0 {
            0
        } else {
            (self.next() % n as u64) as usize
        }
    }
    // random value with a random density, so all-zero-ish and all-one-ish values occur too
    pub fn bits(&mut self, w: u32) -> u128 {
        let m = mask(w);
        match self.below(6) {
            0 => self.u128() & self.u128() & m,
            1 => (self.u128() | self.u128()) & m,
            _ => self.u128() & m,
        }
    }
}

pub fn mask(w: u32) -> u128 {
    if w >= 128 {
        u128::MAX
    } else {
        (1u128 << w) - 1
    }
}

// ---------------------------------------------------------------------------------------------
pub struct Rec {
    out: std::io::BufWriter<std::fs::File>,
    dir: String,
    shard: usize,
    bytes: usize,
    shard_limit: usize,
    pub events: u64,
    pub seed: u64,
    pub mode: String,
    pub budget: usize,
    pub only: Option<usize>,
}

fn bits_json(v: u128) -> String {
    let mut s = String::from("[");
    let mut first = true;
    let mut x = v;
    while x != 0 {
        let b = x.trailing_zeros();
        if !first {
            s.push(',');
        }
        first = false;
        s.push_str(&b.to_string());
        x &= x - 1;
    }
    s.push(']');
    s
}

fn esc(s: &str) -> String {
    let mut o = String::new();
    for c in s.chars() {
        match c {
            '"' => o.push_str("\\\""),
            '\\' => o.push_str("\\\\"),
            '\n' => o.push_str("\\n"),
            c if (c as u32) < 0x20 => o.push_str(&format!("\\u{:04x}", c as u32)),
            c => o.push(c),
        }
    }
    o
}

fn obs_json(o: &Result<Obs, ()>) -> String {
    match o {
        Err(()) => "{\"k\":\"panic\",\"v\":[],\"name\":\"\",\"dec\":\"\"}".to_string(),
        Ok(Obs::Bits(b, d)) => format!("{{\"k\":\"bits\",\"v\":{},\"name\":\"\",\"dec\":\"{}\"}}", bits_json(*b), d),
        Ok(Obs::Bool(b)) => format!(
            "{{\"k\":\"bool\",\"v\":{},\"name\":\"\",\"dec\":\"\"}}",
            if *b { "[0]" } else { "[]" }
        ),
        Ok(Obs::Var(n)) => format!("{{\"k\":\"var\",\"v\":[],\"name\":\"{}\",\"dec\":\"\"}}", n),
        Ok(Obs::Ok(n)) => format!("{{\"k\":\"ok\",\"v\":[],\"name\":\"{}\",\"dec\":\"\"}}", n),
        Ok(Obs::Err(b)) => format!("{{\"k\":\"err\",\"v\":{},\"name\":\"\",\"dec\":\"\"}}", bits_json(*b)),
    }
}

impl Rec {
    pub fn from_env() -> Rec {
        let dir = std::env::var("TRACE_DIR").expect("TRACE_DIR");
        let seed = std::env::var("VERIF_SEED").ok().and_then(|s| s.parse().ok()).unwrap_or(1);
        let mode = std::env::var("DRV_MODE").unwrap_or_else(|_| "pattern".into());
        let budget = std::env::var("DRV_BUDGET").ok().and_then(|s| s.parse().ok()).unwrap_or(1);
        let shard_limit = std::env::var("SHARD_BYTES").ok().and_then(|s| s.parse().ok()).unwrap_or(2_000_000);
        let only = std::env::var("DRV_ONLY").ok().and_then(|s| s.parse().ok());
        std::fs::create_dir_all(&dir).unwrap();
        let out = std::io::BufWriter::new(std::fs::File::create(format!("{}/trace-0000.ndjson", dir)).unwrap());
        std::panic::set_hook(Box::new(|_| {}));
        Rec { out, dir, shard: 0, bytes: 0, shard_limit, events: 0, seed, mode, budget, only }
    }
    pub fn line(&mut self, s: String) {
        self.bytes += s.len() + 1;
        self.events += 1;
        self.out.write_all(s.as_bytes()).unwrap();
        self.out.write_all(b"\n").unwrap();
    }
    // a new declaration starts: rotate the shard if it is full (shards always start with a reset)
    pub fn reset(&mut self, decl: usize) {
        if self.bytes > self.shard_limit {
            self.out.flush().unwrap();
            self.shard += 1;
            self.bytes = 0;
            self.out = std::io::BufWriter::new(
                std::fs::File::create(format!("{}/trace-{:04}.ndjson", self.dir, self.shard)).unwrap(),
            );
        }
        self.line(format!("{{\"ev\":\"reset\",\"decl\":{}}}", decl));
    }
    pub fn finish(&mut self) {
        self.out.flush().unwrap();
        println!("EVENTS {} SHARDS {}", self.events, self.shard + 1);
    }
}

// manual event API (used by generated straight-line programs, e.g. const-evaluated ones): the caller performed the
// real calls itself and hands over what it observed
impl Rec {
    pub fn ev_new(&mut self, raw: u128, after: u128) {
        self.line(format!(
            "{{\"ev\":\"new\",\"slot\":\"a\",\"raw\":{},\"res\":{}}}",
            bits_json(raw),
            obs_json(&Ok(Obs::Bits(after, String::new())))
        ));
    }
    pub fn ev_with(&mut self, f: usize, i: usize, arg: u128, src_raw: u128, dst_raw: u128, store: u128) {
        self.line(format!(
            "{{\"ev\":\"with\",\"src\":\"a\",\"dst\":\"a\",\"field\":{},\"idx\":{},\"arg\":{},\"panic\":false,\"src_raw\":{},\"dst_raw\":{},\"raw_panic\":false,\"store\":{}}}",
            f, i, bits_json(arg), bits_json(src_raw), bits_json(dst_raw), bits_json(store)
        ));
    }
    pub fn ev_get(&mut self, f: usize, i: usize, obs: Obs) {
        self.line(format!(
            "{{\"ev\":\"get\",\"slot\":\"a\",\"field\":{},\"idx\":{},\"res\":{}}}",
            f, i, obs_json(&Ok(obs))
        ));
    }
    pub fn ev_raw(&mut self, raw: u128) {
        self.line(format!("{{\"ev\":\"raw\",\"slot\":\"a\",\"res\":{}}}", obs_json(&Ok(Obs::Bits(raw, String::new())))));
    }
    pub fn ev_const(&mut self, which: &str, raw: u128) {
        self.line(format!(
            "{{\"ev\":\"const\",\"slot\":\"a\",\"which\":\"{}\",\"res\":{}}}",
            which, obs_json(&Ok(Obs::Bits(raw, String::new())))
        ));
    }
    pub fn ev_build(&mut self, args: &[Vec<u128>], raw: u128, store: u128) {
        let a: Vec<String> = args
            .iter()
            .map(|e| format!("[{}]", e.iter().map(|x| bits_json(*x)).collect::<Vec<_>>().join(",")))
            .collect();
        self.line(format!(
            "{{\"ev\":\"build\",\"dst\":\"a\",\"args\":[{}],\"panic\":false,\"raw\":{},\"store\":{}}}",
            a.join(","), bits_json(raw), bits_json(store)
        ));
    }
}

// two object slots, as in the specification
pub struct Slots<T: Reg> {
    pub a: T,
    pub b: T,
}
// TLC integers are 32 bit: an out-of-range index is logged as-is when small, otherwise as a representative that is
// still >= every array length (the specification only asks "is it >= K")
fn idx_log(i: usize) -> usize {
    if i < (1 << 30) {
        i
    } else {
        (1 << 30) + (i % 1000)
    }
}
fn sl(i: usize) -> &'static str {
    if i == 0 {
        "a"
    } else {
        "b"
    }
}
impl<T: Reg> Slots<T> {
    fn at(&mut self, i: usize) -> &mut T {
        if i == 0 {
            &mut self.a
        } else {
            &mut self.b
        }
    }
}

pub struct Drv<'r, T: Reg> {
    pub r: &'r mut Rec,
    pub s: Slots<T>,
    pub rng: Rng,
}

impl<'r, T: Reg> Drv<'r, T> {
    pub fn new(r: &'r mut Rec) -> Self {
        let rng = Rng::new(r.seed.wrapping_add(T::SEED_ID as u64 * 7919));
        r.reset(T::ID);
        Drv { r, s: Slots { a: T::zero(), b: T::zero() }, rng }
    }
    // ---- the logged operations: each calls the real API exactly once (plus raw_value() to log state)
    pub fn op_new(&mut self, s: usize, raw: u128) {
        let raw = raw & mask(T::N);
        *self.s.at(s) = T::new(raw);
        let after = catch_unwind(AssertUnwindSafe(|| self.s.at(s).raw()));
        self.r.line(format!(
            "{{\"ev\":\"new\",\"slot\":\"{}\",\"raw\":{},\"res\":{}}}",
            sl(s),
            bits_json(raw),
            obs_json(&after.map(|x| Obs::Bits(x, String::new())).map_err(|_| ()))
        ));
    }
    pub fn op_const(&mut self, s: usize, which: &str) {
        let r = catch_unwind(|| match which {
            "zero" => T::zero(),
            "default" => T::default_const(),
            "default_trait" => T::default_trait(),
            _ => T::deprecated_new(),
        });
        let res = match r {
            Ok(v) => {
                *self.s.at(s) = v;
                catch_unwind(AssertUnwindSafe(|| v.raw())).map(|x| Obs::Bits(x, String::new())).map_err(|_| ())
            }
            Err(_) => Err(()),
        };
        self.r.line(format!(
            "{{\"ev\":\"const\",\"slot\":\"{}\",\"which\":\"{}\",\"res\":{}}}",
            sl(s),
            which,
            obs_json(&res)
        ));
    }
    pub fn op_raw(&mut self, s: usize) {
        let x = *self.s.at(s);
        let res = catch_unwind(AssertUnwindSafe(|| x.raw())).map(|x| Obs::Bits(x, String::new())).map_err(|_| ());
        self.r.line(format!("{{\"ev\":\"raw\",\"slot\":\"{}\",\"res\":{}}}", sl(s), obs_json(&res)));
    }
    pub fn op_copy(&mut self, s: usize, t: usize) {
        let x = *self.s.at(s);
        *self.s.at(t) = x; // Copy: `x` stays usable
        let _still_usable = x;
        self.r.line(format!("{{\"ev\":\"copy\",\"src\":\"{}\",\"dst\":\"{}\"}}", sl(s), sl(t)));
    }
    // t = T::new_with_raw_value(s.raw_value())
    pub fn op_rewrap(&mut self, s: usize, t: usize) {
        let x = *self.s.at(s);
        let res = catch_unwind(AssertUnwindSafe(|| T::new(x.raw())));
        let ok = res.is_ok();
        if let Ok(v) = res {
            *self.s.at(t) = v;
        }
        self.r.line(format!(
            "{{\"ev\":\"rewrap\",\"src\":\"{}\",\"dst\":\"{}\",\"panic\":{}}}",
            sl(s),
            sl(t),
            !ok
        ));
    }
    pub fn op_get(&mut self, s: usize, f: usize, i: usize) {
        let x = *self.s.at(s);
        let res = catch_unwind(AssertUnwindSafe(|| x.get(f, i))).map_err(|_| ());
        self.r.line(format!(
            "{{\"ev\":\"get\",\"slot\":\"{}\",\"field\":{},\"idx\":{},\"res\":{}}}",
            sl(s),
            f,
            idx_log(i),
            obs_json(&res)
        ));
    }
    pub fn op_with(&mut self, s: usize, t: usize, f: usize, i: usize, v: u128) {
        let x = *self.s.at(s);
        let res = catch_unwind(AssertUnwindSafe(|| x.with(f, i, v)));
        let panic = res.is_err();
        if let Ok(y) = res {
            *self.s.at(t) = y;
        }
        // the receiver `x` must be unchanged: log it (for s == t the slot now holds the result)
        let src_raw = catch_unwind(AssertUnwindSafe(|| x.raw())).unwrap_or(u128::MAX);
        let dst = *self.s.at(t);
        let dst_raw = catch_unwind(AssertUnwindSafe(|| dst.raw()));
        self.r.line(format!(
            "{{\"ev\":\"with\",\"src\":\"{}\",\"dst\":\"{}\",\"field\":{},\"idx\":{},\"arg\":{},\"panic\":{},\"src_raw\":{},\"dst_raw\":{},\"raw_panic\":{},\"store\":{}}}",
            sl(s), sl(t), f, idx_log(i), bits_json(v), panic, bits_json(src_raw),
            bits_json(*dst_raw.as_ref().unwrap_or(&0)), dst_raw.is_err(), bits_json(dst.store())
        ));
    }
    pub fn op_set(&mut self, s: usize, f: usize, i: usize, v: u128) {
        let mut x = *self.s.at(s);
        // set_ works on a copy so that a panic cannot leave the slot half-written unobserved:
        // the copy is stored back whatever happens and its raw value is logged
        let res = catch_unwind(AssertUnwindSafe(|| x.set(f, i, v)));
        *self.s.at(s) = x;
        let raw = catch_unwind(AssertUnwindSafe(|| x.raw()));
        self.r.line(format!(
            "{{\"ev\":\"set\",\"slot\":\"{}\",\"field\":{},\"idx\":{},\"arg\":{},\"panic\":{},\"raw\":{},\"raw_panic\":{},\"store\":{}}}",
            sl(s), f, idx_log(i), bits_json(v), res.is_err(), bits_json(*raw.as_ref().unwrap_or(&0)), raw.is_err(), bits_json(x.store())
        ));
    }
    pub fn op_build(&mut self, t: usize, args: &[Vec<u128>]) {
        let res = catch_unwind(|| T::build(args));
        let panic = res.is_err();
        if let Ok(v) = res {
            *self.s.at(t) = v;
        }
        let raw = self.s.at(t).raw();
        let store = self.s.at(t).store();
        let a: Vec<String> = args
            .iter()
            .map(|e| format!("[{}]", e.iter().map(|x| bits_json(*x)).collect::<Vec<_>>().join(",")))
            .collect();
        self.r.line(format!(
            "{{\"ev\":\"build\",\"dst\":\"{}\",\"args\":[{}],\"panic\":{},\"raw\":{},\"store\":{}}}",
            sl(t),
            a.join(","),
            panic,
            bits_json(raw),
            bits_json(store)
        ));
    }
    pub fn op_layout(&mut self) {
        let (s, a, ns, na) = T::layout();
        self.r.line(format!(
            "{{\"ev\":\"layout\",\"size\":{},\"align\":{},\"nsize\":{},\"nalign\":{}}}",
            s, a, ns, na
        ));
    }
    pub fn op_debug(&mut self, s: usize, alt: bool) {
        let x = *self.s.at(s);
        let text = catch_unwind(AssertUnwindSafe(|| x.debug(alt)));
        // the getters' own Debug renderings, produced through the public getters
        let parts = catch_unwind(AssertUnwindSafe(|| x.debug_parts(alt))).unwrap_or_default();
        let (panic, text) = match text {
            Ok(t) => (false, t),
            Err(_) => (true, String::new()),
        };
        let lines = |t: &str| -> String {
            format!("[{}]", t.split('\n').map(|l| format!("\"{}\"", esc(l))).collect::<Vec<_>>().join(","))
        };
        self.r.line(format!(
            "{{\"ev\":\"debug\",\"slot\":\"{}\",\"alt\":{},\"panic\":{},\"lines\":{},\"parts\":[{}],\"plain\":[{}]}}",
            sl(s),
            alt,
            panic,
            lines(&text),
            parts.iter().map(|p| lines(p)).collect::<Vec<_>>().join(","),
            T::meta().iter().map(|m| format!("\"{}\"", m.name)).collect::<Vec<_>>().join(",")
        ));
    }
    // shard rotation point: only where the driver re-initialises both slots anyway
    pub fn checkpoint(&mut self) {
        if self.r.bytes > self.r.shard_limit {
            self.r.reset(T::ID);
            self.op_new(0, 0);
            self.op_copy(0, 1);
        }
    }

    // ---- input selection helpers (no oracle here, only "interesting" inputs) -------------------
    fn elem_pos(&self, f: usize, i: usize) -> Vec<u32> {
        let m = &T::meta()[f];
        m.pos0.iter().map(|p| p + (i as u32) * if m.is_array { m.stride } else { 0 }).collect()
    }
    fn elem_mask(&self, f: usize, i: usize) -> u128 {
        self.elem_pos(f, i).iter().filter(|p| **p < 128).fold(0u128, |a, p| a | (1u128 << p))
    }
    fn raws_for(&mut self, f: usize, i: usize, budget: usize) -> Vec<u128> {
        let n = T::N;
        let all = mask(n);
        let fm = self.elem_mask(f, i) & all;
        let mut v = vec![0, all, fm, all & !fm, 0xAAAAAAAA_AAAAAAAA_AAAAAAAA_AAAAAAAAu128 & all, 0x55555555_55555555_55555555_55555555u128 & all];
        let pos = self.elem_pos(f, i);
        let mut edges: Vec<u32> = vec![0, n - 1];
        // edges of every maximal run of positions
        for (k, p) in pos.iter().enumerate() {
            let first = k == 0 || pos[k - 1] + 1 != *p;
            let last = k + 1 == pos.len() || pos[k + 1] != *p + 1;
            if first || last || pos.len() <= 8 {
                for d in [-1i64, 0, 1] {
                    let q = *p as i64 + d;
                    if q >= 0 && (q as u32) < n {
                        edges.push(q as u32);
                    }
                }
            }
        }
        edges.sort();
        edges.dedup();
        for e in edges {
            v.push(1u128 << e);
            v.push(all & !(1u128 << e));
        }
        for _ in 0..(2 * budget) {
            v.push(self.rng.bits(n));
        }
        v.sort();
        v.dedup();
        v
    }
    fn vals_for(&mut self, f: usize, budget: usize) -> Vec<u128> {
        let m = &T::meta()[f];
        if !m.legal.is_empty() {
            return m.legal.to_vec();
        }
        let w = m.w;
        let all = mask(w);
        let mut v = vec![0, all];
        for k in [0u32, 1, w.saturating_sub(2), w - 1] {
            if k < w {
                v.push(1u128 << k);
                v.push(all & !(1u128 << k));
            }
        }
        if w <= 3 {
            for x in 0..(1u128 << w) {
                v.push(x);
            }
        }
        for _ in 0..(2 * budget) {
            v.push(self.rng.bits(w));
        }
        v.sort();
        v.dedup();
        v
    }
    fn rand_val(&mut self, f: usize) -> u128 {
        let m = &T::meta()[f];
        if !m.legal.is_empty() {
            return m.legal[self.rng.below(m.legal.len())];
        }
        self.rng.bits(m.w)
    }

    // ---- drivers ------------------------------------------------------------------------------
    // C01/C03/C04/C05/C08 (read side): every readable element read at edge-pattern raw values
    pub fn drive_get(&mut self) {
        let budget = self.r.budget;
        for f in 0..T::meta().len() {
            let m = &T::meta()[f];
            if !m.readable {
                continue;
            }
            for i in 0..m.count {
                for raw in self.raws_for(f, i, budget) {
                    self.checkpoint();
                    self.op_new(0, raw);
                    self.op_get(0, f, i);
                }
            }
            if m.is_array {
                self.op_new(0, mask(T::N));
                // indices whose byte-blind product index * stride WRAPS back into range: ceil(2^64 / stride) (+1), and the powers of two
                let wrap = (((1u128 << 64) + (m.stride.max(1) as u128) - 1) / (m.stride.max(1) as u128)) as usize;
                for i in [m.count, m.count + 1, m.count + 7, 1usize << 20, 1usize << 60, 1usize << 61, (1usize << 62) + 5, 1usize << 62, 1usize << 63,
                          (1usize << 63) + 1, wrap, wrap.wrapping_add(1), usize::MAX / 3 + 1, usize::MAX] {
                    if i < m.count { continue; }
                    self.op_get(0, f, i);
                }
            }
        }
    }
    // C02..C05/C08 (write side): with_ and set_ at (raw, value) combinations; the result is
    // observed through raw_value(), through the getter, and the receiver is re-observed.
    pub fn drive_write(&mut self) {
        let budget = self.r.budget;
        for f in 0..T::meta().len() {
            let m = &T::meta()[f];
            if !m.writable {
                continue;
            }
            for i in 0..m.count {
                let all = mask(T::N);
                let fm = self.elem_mask(f, i) & all;
                let mut raws = vec![0, all, fm, all & !fm];
                for _ in 0..(2 * budget) {
                    raws.push(self.rng.bits(T::N));
                }
                let vals = self.vals_for(f, budget);
                for (k, raw) in raws.iter().enumerate() {
                    for (j, v) in vals.iter().enumerate() {
                        // full cross product for the two extreme raws, diagonal sampling for the others
                        if k >= 2 && (j + k) % 3 != 0 && vals.len() > 4 {
                            continue;
                        }
                        self.checkpoint();
                        self.op_new(0, *raw);
                        self.op_with(0, 1, f, i, *v);
                        self.op_set(0, f, i, *v);
                        if m.readable {
                            self.op_get(1, f, i);
                        }
                        if T::N != 8 && T::N != 16 && T::N != 32 && T::N != 64 && T::N != 128 {
                            self.op_rewrap(1, 0);
                            if m.readable {
                                self.op_get(0, f, i);
                            }
                        }
                    }
                }
            }
            if m.is_array {
                let v0 = self.rand_val(f);
                // indices whose byte-blind product index * stride WRAPS back into range: ceil(2^64 / stride) (+1), and the powers of two
                let wrap = (((1u128 << 64) + (m.stride.max(1) as u128) - 1) / (m.stride.max(1) as u128)) as usize;
                for i in [m.count, m.count + 1, m.count + 7, 1usize << 20, 1usize << 60, 1usize << 61, (1usize << 62) + 5, 1usize << 62, 1usize << 63,
                          (1usize << 63) + 1, wrap, wrap.wrapping_add(1), usize::MAX / 3 + 1, usize::MAX] {
                    if i < m.count { continue; }
                    self.op_new(0, mask(T::N));
                    self.op_with(0, 1, f, i, v0);
                    self.op_set(0, f, i, v0);
                    self.op_new(0, 0);
                    self.op_set(0, f, i, mask(m.w));
                }
            }
        }
    }
    // C06: raw round trip, constants, layout, Copy
    pub fn drive_base(&mut self) {
        let n = T::N;
        let all = mask(n);
        self.op_layout();
        self.op_const(0, "zero");
        if T::HAS_DEFAULT {
            self.op_const(0, "default");
            self.op_const(1, "default_trait");
            self.op_const(0, "new");
        }
        let mut raws = vec![0, all, 0xAAAAAAAA_AAAAAAAA_AAAAAAAA_AAAAAAAAu128 & all, 0x55555555_55555555_55555555_55555555u128 & all];
        if n <= 10 || (self.r.budget >= 8 && n <= 16) {
            for x in 0..(1u128 << n) {
                raws.push(x);
            }
        } else {
            for b in 0..n {
                raws.push(1u128 << b);
                raws.push(all & !(1u128 << b));
            }
            for _ in 0..(8 * self.r.budget) {
                raws.push(self.rng.bits(n));
            }
        }
        for raw in raws {
            self.checkpoint();
            self.op_new(0, raw);
            self.op_raw(0);
            self.op_copy(0, 1);
            self.op_raw(1);
            self.op_raw(0);
        }
    }
    // C11/C12: random histories over two slots, every kind of call interleaved
    pub fn drive_history(&mut self) {
        let nf = T::meta().len();
        let histories = 4 * self.r.budget;
        let len = 60;
        for _ in 0..histories {
            self.checkpoint();
            let raw0 = self.rng.bits(T::N);
            self.op_new(0, raw0);
            self.op_copy(0, 1);
            for _ in 0..len {
                let s = self.rng.below(2);
                let t = self.rng.below(2);
                if nf == 0 {
                    self.op_raw(s);
                    continue;
                }
                let f = self.rng.below(nf);
                let m = &T::meta()[f];
                let oob = m.is_array && self.rng.below(12) == 0;
                let i = if oob { m.count + self.rng.below(3) } else { self.rng.below(m.count) };
                match self.rng.below(10) {
                    0 | 1 | 2 => {
                        if m.writable {
                            let v = self.rand_val(f);
                            self.op_with(s, t, f, i, v)
                        }
                    }
                    3 | 4 | 5 => {
                        if m.writable {
                            let v = self.rand_val(f);
                            self.op_set(s, f, i, v)
                        }
                    }
                    6 | 7 => {
                        if m.readable {
                            self.op_get(s, f, i)
                        }
                    }
                    8 => self.op_raw(s),
                    _ => match self.rng.below(4) {
                        0 => self.op_copy(s, t),
                        1 => self.op_rewrap(s, t),
                        2 => {
                            let r = self.rng.bits(T::N);
                            self.op_new(s, r)
                        }
                        _ => {
                            if T::HAS_DEFAULT {
                                self.op_const(s, "default")
                            } else {
                                self.op_const(s, "zero")
                            }
                        }
                    },
                }
            }
            // close the history: observe everything, directly and through a re-wrapped raw value
            for s in 0..2 {
                self.op_raw(s);
                for f in 0..nf {
                    let m = &T::meta()[f];
                    if m.readable {
                        for i in 0..m.count.min(4) {
                            self.op_get(s, f, i);
                        }
                    }
                }
            }
            self.op_rewrap(0, 1);
            for f in 0..nf {
                let m = &T::meta()[f];
                if m.readable {
                    for i in 0..m.count.min(4) {
                        self.op_get(1, f, i);
                    }
                }
            }
        }
    }
    // exhaustive raw x value tables for small storage (C01/C02)
    pub fn drive_table(&mut self, writes: bool) {
        if T::N > 8 + (if self.r.budget >= 8 { 8 } else { 0 }) {
            return;
        }
        let nf = T::meta().len();
        for raw in 0..(1u128 << T::N) {
            self.checkpoint();
            self.op_new(0, raw);
            for f in 0..nf {
                let m = &T::meta()[f];
                for i in 0..m.count {
                    if m.readable {
                        self.op_get(0, f, i);
                    }
                    if writes && m.writable && m.w <= 8 {
                        let vals: Vec<u128> = if m.legal.is_empty() { (0..(1u128 << m.w)).collect() } else { m.legal.to_vec() };
                        for v in vals {
                            self.op_with(0, 1, f, i, v);
                        }
                    }
                }
            }
        }
    }
    // C13: builder with argument tuples
    pub fn drive_build(&mut self) {
        if !T::HAS_BUILDER {
            return;
        }
        let metas = T::meta();
        let tuples = 6 + 6 * self.r.budget;
        for k in 0..tuples {
            let mut args: Vec<Vec<u128>> = Vec::new();
            for f in 0..metas.len() {
                let m = &metas[f];
                if !m.writable {
                    continue;
                }
                let mut el = Vec::new();
                for i in 0..m.count {
                    let v = if !m.legal.is_empty() {
                        m.legal[(k + i) % m.legal.len()]
                    } else {
                        match k {
                            0 => 0,
                            1 => mask(m.w),
                            2 => (1u128 << (i as u32 % m.w)) & mask(m.w),
                            3 => (i as u128 + 1) & mask(m.w),
                            _ => self.rng.bits(m.w),
                        }
                    };
                    el.push(v);
                }
                args.push(el);
            }
            self.checkpoint();
            self.op_build(0, &args);
            self.op_raw(0);
            for f in 0..metas.len() {
                if metas[f].readable {
                    for i in 0..metas[f].count.min(3) {
                        self.op_get(0, f, i);
                    }
                }
            }
        }
    }
    // C19: Debug text at pattern raws, both formats, with the getters observed next to it
    pub fn drive_debug(&mut self) {
        if !T::HAS_DEBUG {
            return;
        }
        let all = mask(T::N);
        let mut raws = vec![0, all, 0xAAAAAAAA_AAAAAAAA_AAAAAAAA_AAAAAAAAu128 & all, 0x55555555_55555555_55555555_55555555u128 & all];
        for _ in 0..(4 * self.r.budget) {
            raws.push(self.rng.bits(T::N));
        }
        for raw in raws {
            self.checkpoint();
            self.op_new(0, raw);
            self.op_debug(0, false);
            self.op_debug(0, true);
            self.op_new(1, raw);
            self.op_debug(1, false);
        }
    }

    pub fn run(&mut self) {
        let modes: Vec<String> = self.r.mode.split(',').map(|s| s.to_string()).collect();
        for m in modes {
            match m.as_str() {
                "get" => self.drive_get(),
                "write" => self.drive_write(),
                "base" => self.drive_base(),
                "history" => self.drive_history(),
                "table" => self.drive_table(true),
                "tableget" => self.drive_table(false),
                "build" => self.drive_build(),
                "debug" => self.drive_debug(),
                other => panic!("unknown DRV_MODE {}", other),
            }
        }
    }
}

pub fn run_one<T: Reg>(r: &mut Rec) {
    if let Some(only) = r.only {
        if only != T::ID {
            return;
        }
    }
    let mut d: Drv<T> = Drv::new(r);
    d.run();
}

// ---------------------------------------------------------------------------------------------
// specification -> implementation: replay behaviours generated by TLC (spec/SimRegister.tla) on the real object and
// compare the abstract state after every step.  Input: a text rendering of TLC's JSON (see gen/checks.py: sim_leg).
pub struct Step {
    pub op: String,
    pub s: usize,
    pub t: usize,
    pub j: usize,
    pub i: usize,
    pub v: u128,
    pub a: u128,
    pub b: u128,
    pub outk: String,
    pub outv: u128,
    pub outname: String,
}

fn parse_bits(s: &str) -> u128 {
    if s == "-" {
        return 0;
    }
    s.split(',').fold(0u128, |acc, x| acc | (1u128 << x.parse::<u32>().unwrap()))
}

pub fn parse_step(line: &str) -> Step {
    let p: Vec<&str> = line.split(' ').collect();
    let slot = |x: &str| if x == "a" { 0 } else { 1 };
    Step {
        op: p[1].to_string(),
        s: slot(p[2]),
        t: slot(p[3]),
        j: p[4].parse().unwrap(),
        i: p[5].parse().unwrap(),
        v: parse_bits(p[6]),
        a: parse_bits(p[7]),
        b: parse_bits(p[8]),
        outk: p[9].to_string(),
        outv: parse_bits(p[10]),
        outname: if p[11] == "-" { String::new() } else { p[11].to_string() },
    }
}

pub fn replay_behaviour<T: Reg>(beh: usize, steps: &[Step], out: &mut Vec<String>) -> usize {
    let mut sl: [T; 2] = [T::zero(), T::zero()];
    for (n, st) in steps.iter().enumerate() {
        let f = if st.j > 0 { st.j - 1 } else { 0 };
        let mut note: Option<String> = None;
        match st.op.as_str() {
            "new" => sl[st.s] = T::new(st.v),
            "zero" => sl[st.s] = T::zero(),
            "default" => sl[st.s] = T::default_const(),
            "copy" => sl[st.t] = sl[st.s],
            "rewrap" => {
                let x = sl[st.s];
                match catch_unwind(AssertUnwindSafe(|| T::new(x.raw()))) {
                    Ok(y) => sl[st.t] = y,
                    Err(_) => note = Some("raw_value()/new_with_raw_value panicked".into()),
                }
            }
            "raw" => {
                let x = sl[st.s];
                match catch_unwind(AssertUnwindSafe(|| x.raw())) {
                    Ok(r) => {
                        if r != st.outv {
                            note = Some(format!("raw_value() expected={} observed={}", bits_json(st.outv), bits_json(r)));
                        }
                    }
                    Err(_) => note = Some("raw_value() panicked".into()),
                }
            }
            "get" => {
                let x = sl[st.s];
                match catch_unwind(AssertUnwindSafe(|| x.get(f, st.i))) {
                    Ok(o) => {
                        let ok = match (&o, st.outk.as_str()) {
                            (Obs::Bool(b), "bool") => (*b as u128) == st.outv,
                            (Obs::Bits(v, _), "bits") => *v == st.outv,
                            (Obs::Var(nm), "var") => *nm == st.outname,
                            (Obs::Ok(nm), "ok") => *nm == st.outname,
                            (Obs::Err(v), "err") => *v == st.outv,
                            _ => false,
                        };
                        if !ok {
                            note = Some(format!("getter expected={}:{}:{} observed={:?}", st.outk, bits_json(st.outv), st.outname, o));
                        }
                    }
                    Err(_) => note = Some("getter panicked".into()),
                }
            }
            "with" => {
                let x = sl[st.s];
                match catch_unwind(AssertUnwindSafe(|| x.with(f, st.i, st.v))) {
                    Ok(y) => sl[st.t] = y,
                    Err(_) => note = Some("with_ panicked".into()),
                }
            }
            "set" => {
                let mut x = sl[st.s];
                if catch_unwind(AssertUnwindSafe(|| x.set(f, st.i, st.v))).is_err() {
                    note = Some("set_ panicked".into());
                }
                sl[st.s] = x;
            }
            "getoob" => {
                let x = sl[st.s];
                if catch_unwind(AssertUnwindSafe(|| x.get(f, st.i))).is_ok() {
                    note = Some("getter did not panic on an out-of-range index".into());
                }
            }
            "withoob" => {
                let x = sl[st.s];
                if !T::meta()[f].writable {
                    continue;
                }
                let v = if T::meta()[f].legal.is_empty() { 0 } else { T::meta()[f].legal[0] };
                if catch_unwind(AssertUnwindSafe(|| x.with(f, st.i, v))).is_ok() {
                    note = Some("with_ did not panic on an out-of-range index".into());
                }
            }
            "setoob" => {
                let mut x = sl[st.s];
                if !T::meta()[f].writable {
                    continue;
                }
                let v = if T::meta()[f].legal.is_empty() { mask(T::meta()[f].w) } else { T::meta()[f].legal[0] };
                if catch_unwind(AssertUnwindSafe(|| x.set(f, st.i, v))).is_ok() {
                    note = Some("set_ did not panic on an out-of-range index".into());
                }
                sl[st.s] = x;
            }
            other => panic!("unknown replay op {}", other),
        }
        if note.is_none() {
            for (k, exp) in [(0usize, st.a), (1usize, st.b)] {
                let x = sl[k];
                let r = catch_unwind(AssertUnwindSafe(|| x.raw()));
                match r {
                    Ok(r) if r == exp && x.store() == exp => {}
                    Ok(r) => {
                        note = Some(format!(
                            "state of slot {} after the step: expected={} raw_value()={} storage={}",
                            sl_name(k), bits_json(exp), bits_json(r), bits_json(x.store())
                        ))
                    }
                    Err(_) => note = Some("raw_value() panicked".into()),
                }
            }
        }
        if let Some(nt) = note {
            out.push(format!("MISMATCH beh={} step={} op={} field={} idx={} :: {}", beh, n + 1, st.op, st.j, st.i, nt));
            return n + 1;
        }
    }
    steps.len()
}
fn sl_name(i: usize) -> &'static str {
    if i == 0 {
        "a"
    } else {
        "b"
    }
}

pub fn read_behaviours(path: &str) -> Vec<(usize, usize, Vec<Step>)> {
    let text = std::fs::read_to_string(path).unwrap();
    let mut v: Vec<(usize, usize, Vec<Step>)> = Vec::new();
    for line in text.lines() {
        if let Some(rest) = line.strip_prefix("B ") {
            let p: Vec<&str> = rest.split(' ').collect();
            v.push((p[0].parse().unwrap(), p[1].parse().unwrap(), Vec::new()));
        } else if line.starts_with("S ") {
            v.last_mut().unwrap().2.push(parse_step(line));
        }
    }
    v
}

// ---------------------------------------------------------------------------------------------
// witness mode: concrete inputs derived from a failed symbolic obligation (spec/Sym.tla) are run against the real code and
// recorded as ordinary events; only TLC's validation of these events can turn the obligation into an alarm.
// WITNESS_FILE lines:  <decl> <field> <idx> <op:get|with|set> <raw bits> <value bits>
pub fn run_witness<T: Reg>(r: &mut Rec, path: &str) {
    let text = std::fs::read_to_string(path).unwrap();
    let mut started = false;
    for line in text.lines() {
        let p: Vec<&str> = line.split(' ').collect();
        if p.len() < 6 || p[0].parse::<usize>().ok() != Some(T::ID) {
            continue;
        }
        if !started {
            r.reset(T::ID);
            started = true;
        }
        let mut d: Drv<T> = Drv { r, s: Slots { a: T::zero(), b: T::zero() }, rng: Rng::new(1) };
        let f: usize = p[1].parse().unwrap();
        let i: usize = p[2].parse().unwrap();
        let raw = parse_bits(p[4]);
        let v = parse_bits(p[5]);
        d.op_new(0, raw);
        d.op_copy(0, 1);
        match p[3] {
            "get" => d.op_get(0, f, i),
            "with" => {
                d.op_with(0, 1, f, i, v);
                d.op_raw(1);
            }
            _ => {
                d.op_set(0, f, i, v);
                d.op_raw(0);
            }
        }
    }
}
