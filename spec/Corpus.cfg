INIT Init
NEXT Next
