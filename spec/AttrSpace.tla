------------------------------ MODULE AttrSpace ------------------------------
(* prints the attribute space of AttrGrammar.tla, one JSON record per attribute, with the grammar's verdict and meaning *)
EXTENDS AttrGrammar
VARIABLES g, done
Init == g \in Space /\ done = TRUE
Next == UNCHANGED <<g, done>>
Emit == PrintT(<<"ATTR", ToJson([gram |-> g, verdict |-> GrammarVerdict(g), meaning |-> MeaningDefined(g),
                                  ranges |-> IF ~MeaningDefined(g) THEN <<>> ELSE GRanges(g),
                                  access |-> IF ~MeaningDefined(g) THEN "none" ELSE GAccess(g),
                                  stride |-> IF ~MeaningDefined(g) THEN <<>> ELSE GStride(g)])>>)
=============================================================================
