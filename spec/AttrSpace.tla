------------------------------ MODULE AttrSpace ------------------------------
(* prints the attribute space of AttrGrammar.tla, one JSON record per attribute, with the grammar's verdict and meaning *)
EXTENDS AttrGrammar
VARIABLES g, done
Init == g \in Space /\ done = TRUE
Next == UNCHANGED <<g, done>>
Emit == PrintT(<<"ATTR", ToJson([gram |-> g, verdict |-> GrammarVerdict(g),
                                  ranges |-> IF GrammarVerdict(g) = "must_reject" THEN <<>> ELSE GRanges(g),
                                  access |-> IF GrammarVerdict(g) = "must_reject" THEN "none" ELSE GAccess(g),
                                  stride |-> IF GrammarVerdict(g) = "must_reject" THEN <<>> ELSE GStride(g)])>>)
=============================================================================
