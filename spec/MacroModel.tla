----------------------------- MODULE MacroModel -----------------------------
(***************************************************************************)
(* Implementation-shaped model of the macro's DECISION logic: what the code *)
(* actually does, one operator per decision site, in the code's own order,  *)
(* with machine arithmetic made explicit (a `usize` subtraction panics in a *)
(* macro built with overflow checks and wraps in one built without).        *)
(*                                                                         *)
(*   ParseOutcome      bitbybit/src/bitfield/parsing.rs  parse_field        *)
(*   BuilderOfferedImpl bitbybit/src/bitfield/codegen.rs make_builder       *)
(*   EnumOutcome       bitbybit/src/bitenum.rs check_explicit_*             *)
(*                                                                         *)
(* This module is NEVER the oracle of a VIOLATION.  It is used (1) at       *)
(* design level: TLC checks that it refines the documented rules            *)
(* (MC_MacroRefines: ParseAccepts <=> Valid, BuilderOfferedImpl <=>         *)
(* BuilderSound, EnumAccepts <=> EnumValid) over the enumerated program     *)
(* spaces -- with the three repairs switched off TLC reproduces the         *)
(* original defects as counterexamples; (2) as a fidelity report against    *)
(* the real verdicts (MODEL-DRIFT warnings, never failures).                *)
(***************************************************************************)
EXTENDS Decl, BitEnum, TLC, Integers

CONSTANTS FixBounds,        \* commit "fix: reject fields that extend beyond the declared base width"
          FixReversed,      \* commit "fix: reject bit ranges whose upper limit is below the lower limit"
          FixSelfOverlap    \* commit "fix: do not offer a builder when a field's range list overlaps itself"

(* usize values of small magnitude: an integer z stands for z mod 2^64, so a negative z is a HUGE unsigned value *)
UGt(x, y) == IF (x < 0) = (y < 0) THEN x > y ELSE x < 0
ULt(x, y) == UGt(y, x)

(* ranges.iter().fold(0, |a, b| a + b.end - b.start) with end = hi + 1: partial results in evaluation order *)
RECURSIVE FoldBits(_, _, _)
FoldBits(rs, a, profile) ==
  IF rs = <<>> THEN [k |-> "ok", v |-> a]
  ELSE LET start == Head(rs)[1]  end == Head(rs)[2] + 1  t == a + end IN
       IF profile = "dev" /\ ULt(t, start) THEN [k |-> "panic", v |-> 0]     \* attempt to subtract with overflow
       ELSE FoldBits(Tail(rs), t - start, profile)

MaxEnd(rs) == LET ends == {rs[j][2] + 1 : j \in 1..Len(rs)} IN CHOOSE e \in ends : \A g \in ends : g <= e

(* parse_field: "accept" | "error" (syn::Error -> compile_error!) | "panic" (proc-macro panicked; also a compile error) *)
ParseField(d, f, profile) ==
  LET rs == f.ranges
      reversed == \E j \in 1..Len(rs) : rs[j][2] < rs[j][1]
      nb == FoldBits(rs, 0, profile)
      base == IF FixBounds THEN d.n ELSE d.s                  \* parse() passes exposed (fixed) / internal (original)
  IN
  IF rs = <<>> THEN "panic"                                   \* ranges[0] / no bit attribute
  ELSE IF FixReversed /\ reversed THEN "error"
  ELSE IF nb.k = "panic" THEN "panic"
  ELSE LET number_of_bits == nb.v
           isbool == f.kind = "bool"
       IN
       IF isbool /\ (number_of_bits # 1 \/ Len(rs) # 1) THEN "error"
       ELSE IF ~isbool /\ number_of_bits # f.tw THEN "error"
       ELSE IF IsArray(f) THEN
              LET count == f.array[1]
                  stride == IF Len(rs) = 1 THEN (IF f.stride = <<>> THEN number_of_bits ELSE f.stride[1])
                            ELSE (IF f.stride = <<>> THEN -1 ELSE f.stride[1])
              IN IF Len(rs) = 1 /\ UGt(number_of_bits, stride) THEN "error"
                 ELSE IF Len(rs) > 1 /\ f.stride = <<>> THEN "error"
                 ELSE IF count = 0 /\ profile = "dev" THEN "panic"            \* (indexed_count - 1) underflows
                 ELSE IF UGt((count - 1) * stride + MaxEnd(rs), base) THEN "error"
                 ELSE IF count < 2 THEN "error"
                 ELSE "accept"
            ELSE IF FixBounds /\ UGt(MaxEnd(rs), base) THEN "error"
            ELSE "accept"

(* codegen of an accepted field can still fail to compile: a shift by >= the storage width in a const expression,
   or an assertion of the macro itself (full-width special case asserts lowest_bit == 0) *)
CodegenOK(d, f) ==
  LET rs == f.ranges IN
  /\ \A j \in 1..Len(rs) : rs[j][2] >= rs[j][1]                                  \* (only reachable without FixReversed)
  /\ (Len(rs) = 1 /\ ~IsArray(f) /\ RW(rs[1]) = d.s /\ f.kind # "bool" => rs[1][1] = 0)
  /\ MaxBit(f) < d.s                                                             \* every emitted shift amount is < storage width

(* bitfield(): "u8" | "u16" | "u32" | "u64" | "u128" | try_parse_arbitrary_int_type (uN, 1 <= N < 128, not a native width) *)
BaseAccepted(d) == d.n \in {8, 16, 32, 64, 128} \/ d.n \in 1..127
ParseAccepts(d, profile) ==
  /\ BaseAccepted(d)
  /\ \A j \in 1..Len(d.fields) : ParseField(d, d.fields[j], profile) = "accept"

---------------------------------------------------------------------------
(* make_builder *)
RangesSelfOverlapImpl(f, stride, len) ==
  \* the loop `for i in 0..array_length { for range in ranges { if bits & mask != 0 ...` accumulates a mask
  \E i1, i2 \in 0..(len - 1) : \E r1, r2 \in 1..Len(f.ranges) :
     /\ (i1 # i2 \/ r1 # r2)
     /\ ((f.ranges[r1][1] + i1 * stride)..(f.ranges[r1][2] + i1 * stride))
          \cap ((f.ranges[r2][1] + i2 * stride)..(f.ranges[r2][2] + i2 * stride)) # {}
FieldMaskImpl(f) == Cover(f)
RECURSIVE BuilderWalk(_, _, _)
BuilderWalk(d, j, running) ==
  IF j > Len(d.fields) THEN [ok |-> TRUE, mask |-> running]
  ELSE LET f == d.fields[j] IN
       IF ~Writable(f) THEN BuilderWalk(d, j + 1, running)
       ELSE IF IsArray(f) /\ RangesSelfOverlapImpl(f, Stride(f), Count(f)) THEN [ok |-> FALSE, mask |-> {}]
       ELSE IF ~IsArray(f) /\ Len(f.ranges) > 1 /\ RangesSelfOverlapImpl(f, 0, IF FixSelfOverlap THEN 1 ELSE 0)
            THEN [ok |-> FALSE, mask |-> {}]
       ELSE IF running \cap FieldMaskImpl(f) # {} THEN [ok |-> FALSE, mask |-> {}]
       ELSE BuilderWalk(d, j + 1, running \cup FieldMaskImpl(f))
BuilderOfferedImpl(d) ==
  LET w == BuilderWalk(d, 1, {}) IN
  /\ w.ok
  /\ (Cardinality(w.mask) = d.n \/ d.def # <<>>)          \* running_mask.count_ones() == base_data_size.exposed

---------------------------------------------------------------------------
(* bitenum: Config::explicit, check_explicit_conditional, check_explicit_exhaustive, Bits::base_type *)
EnumOutcome(e, profile) ==
  LET count == Len(e.variants)
      conditional == e.exh = "conditional"
      anyGated == \E k \in 1..count : e.variants[k].cfg # "none"
      bigN == e.n > 20                                   \* 2^n is far above any variant count of the model
      eq == ~bigN /\ count = 2^(e.n)
      gt == ~bigN /\ count > 2^(e.n)
  IN
  IF anyGated /\ ~conditional THEN "error"                                   \* NotConditional
  ELSE IF e.n >= 128 /\ profile = "dev" THEN "panic"                         \* 1_u128 << size overflows
  ELSE IF gt /\ ~conditional THEN "error"                                    \* TooManyVariants
  ELSE IF e.exh = "true" /\ ~eq THEN "error"                                 \* Exhaustive{..}
  ELSE IF e.exh \in {"false", "omitted"} /\ eq THEN "error"                  \* NotExhaustive{..}
  ELSE IF \E k \in 1..count : e.variants[k].form \notin LitForms THEN "error"  \* Missing / NonLit discriminant (base10_parse reads every radix)
  ELSE IF \E k \in 1..count : ~(ESet(e.variants[k].d) \subseteq 0..(e.n - 1)) THEN "error"   \* max_discr >= max_count
  ELSE IF e.n \notin 1..64 THEN "error"                                      \* BAD_SIZE
  ELSE "accept"
(* what rustc adds on top of the macro: duplicate discriminants among the variants that are compiled in *)
EnumAccepts(e, profile) ==
  /\ EnumOutcome(e, profile) = "accept"
  /\ \A j, k \in Active(e) : j # k => ESet(e.variants[j].d) # ESet(e.variants[k].d)
=============================================================================
