----------------------------- MODULE DeclSpace -----------------------------
(***************************************************************************)
(* C09: the single-field declaration space, enumerated EXHAUSTIVELY by TLC  *)
(* (breadth-first) for small bases: every lo, every hi (including one past  *)
(* the storage width and reversed ranges), type widths w-1/w/w+1 and bool,  *)
(* array counts, strides, both bits(a..=b) and list forms, and two-range    *)
(* lists whose first range may be reversed.  Each finished declaration is   *)
(* printed as JSON together with the verdict of the documented rule.        *)
(***************************************************************************)
EXTENDS Decl, ModelDecls, Json, IOUtils, TLC

Bases   == IF "SPACE_BASES" \in DOMAIN IOEnv THEN {atoi(IOEnv.SPACE_BASES)} ELSE {4, 8}
Level   == atoi(IOEnv.SPACE_LEVEL)          \* 1 = quick slice, 2 = full
Native  == {8, 16, 32, 64, 128}

VARIABLES decl, done
svars == <<decl, done>>

Blank(n) == [id |-> 0, name |-> "T", n |-> n, s |-> StorageOf(n), def |-> <<>>, defform |-> "lit", defsyn |-> "=",
             debug |-> FALSE, fields |-> <<>>, enums |-> <<>>, nested |-> <<>>]
Init == \E n \in Bases : decl = Blank(n) /\ done = FALSE

TypeChoices(w) == {<<"bool", 1>>} \cup
                  {<<IF tw \in Native THEN "unat" ELSE "uarb", tw>> : tw \in ({w - 1, w, w + 1} \cap (1..128))}
                  \cup (IF w \in Native THEN {<<"inat", w>>} ELSE {})
ArrChoices == IF Level >= 2 THEN {<<>>, <<1>>, <<2>>, <<3>>} ELSE {<<>>, <<1>>, <<2>>}
StrideChoices(w) == {<<>>} \cup {<<s>> : s \in ({0, w - 1, w, w + 1} \cap (0..200))}

(* one range, as bits(lo..=hi) or as a one-element list *)
Single == /\ ~done
          /\ \E lo \in 0..(decl.s + 1) : \E hi \in (IF lo = 0 THEN 0 ELSE lo - 1)..(decl.s + 1) :
             LET w == IF hi >= lo THEN hi - lo + 1 ELSE 0 IN
             \E ty \in TypeChoices(IF w = 0 THEN 1 ELSE w) : \E arr \in ArrChoices : \E st \in StrideChoices(IF w = 0 THEN 1 ELSE w) :
             \E list \in (IF Level >= 2 THEN BOOLEAN ELSE {FALSE}) :
               /\ (arr = <<>> => st = <<>>)          \* `stride` on a non-array is a grammar error, not a layout rule
               /\ (Level = 1 => (lo \in {0, 1, decl.n - 1, decl.n, decl.s - 1, decl.s} \/ hi \in {decl.n - 1, decl.n, decl.s - 1, decl.s}))
               /\ decl' = [decl EXCEPT !.fields = << [name |-> "x", kind |-> ty[1], tw |-> ty[2], ty |-> 0,
                                                      ranges |-> << <<lo, hi>> >>, list |-> list, array |-> arr,
                                                      stride |-> st, access |-> "rw"] >>]
          /\ done' = TRUE

(* two ranges: the first possibly reversed or overlapping the second; type width = sum, sum-1, or what a wrapped
   subtraction would make of a reversed first range *)
Double == /\ ~done
          /\ \E lo1 \in 0..(decl.n + 1) : \E hi1 \in 0..(decl.n + 1) : \E lo2 \in {0, 1} : \E hi2 \in {decl.n - 2, decl.n - 1, decl.n} :
             \E swap \in BOOLEAN :                                   \* the odd range first or second in the list
             LET rs == IF swap THEN << <<lo2, hi2>>, <<lo1, hi1>> >> ELSE << <<lo1, hi1>>, <<lo2, hi2>> >>
                 raw == (hi1 + 1 - lo1) + (hi2 + 1 - lo2)       \* what naive arithmetic computes
             IN /\ lo2 <= hi2 /\ hi1 + 2 >= lo1
                /\ (Level = 1 => (lo1 > hi1 \/ hi1 >= decl.n - 1))
                /\ (swap => lo1 > hi1)
                /\ \E tw \in ({SumW(rs), raw} \cap (1..128)) : \E arr \in {<<>>, <<2>>} :
                   \E st \in (IF arr = <<>> THEN {<<>>} ELSE {<<>>, <<1>>}) :    \* stride is mandatory for non-contiguous arrays
                   decl' = [decl EXCEPT !.fields = << [name |-> "x", kind |-> IF tw \in Native THEN "unat" ELSE "uarb", tw |-> tw, ty |-> 0,
                                                          ranges |-> rs, list |-> TRUE, array |-> arr,
                                                          stride |-> st, access |-> "rw"] >>]
          /\ done' = TRUE

Next == Single \/ Double
Emit == done => PrintT(<<"DECL", ToJson(decl)>>)
=============================================================================
