------------------------------ MODULE ApaRefine ------------------------------
(***************************************************************************)
(* Unbounded design-level check with Apalache (symbolic, SMT): for EVERY    *)
(* base width, every lo/hi, every type width, every array count and stride  *)
(* (unbounded integers, not the small constants of the TLC models) the      *)
(* implementation-shaped acceptance decision of parse_field for a           *)
(* single-range field (MacroModel!ParseField, with the three repairs) is    *)
(* equivalent to the documented rule (Decl!ValidField).                     *)
(*   apalache-mc check --init=Init --inv=Refines --length=0 ApaRefine.tla   *)
(* The definitions are the single-range specialisations of the operators in *)
(* Decl.tla / MacroModel.tla (sequences and records are avoided so that the *)
(* formula stays in linear/non-linear integer arithmetic).                  *)
(***************************************************************************)
EXTENDS Integers

VARIABLES
  \* @type: Int;
  n,
  \* @type: Int;
  lo,
  \* @type: Int;
  hi,
  \* @type: Int;
  tw,
  \* @type: Int;
  cnt,
  \* @type: Int;
  stride,
  \* @type: Bool;
  isArr,
  \* @type: Bool;
  hasStride,
  \* @type: Bool;
  isBool

Init == /\ n \in 1..128
        /\ lo \in Nat /\ hi \in Nat /\ tw \in Nat /\ cnt \in Nat /\ stride \in Nat
        /\ isArr \in BOOLEAN /\ hasStride \in BOOLEAN /\ isBool \in BOOLEAN
        /\ (~isArr => ~hasStride)          \* `stride` on a non-array is a grammar error (AttrGrammar), not a layout rule
Next == UNCHANGED <<n, lo, hi, tw, cnt, stride, isArr, hasStride, isBool>>

W == hi - lo + 1
Eff == IF hasStride THEN stride ELSE W

(* Decl!ValidField for one range *)
ValidSingle ==
  /\ lo <= hi
  /\ (IF isBool THEN W = 1 ELSE tw = W)
  /\ (isArr => cnt >= 2 /\ Eff >= W)
  /\ hi + (IF isArr THEN (cnt - 1) * Eff ELSE 0) < n

(* MacroModel!ParseField for one range, repaired code; a dev-built macro additionally panics (= rejects) on count 0 *)
ParseSingle ==
  IF hi < lo THEN FALSE
  ELSE IF isBool /\ W # 1 THEN FALSE
  ELSE IF ~isBool /\ W # tw THEN FALSE
  ELSE IF isArr THEN
         (IF W > Eff THEN FALSE
          ELSE IF cnt = 0 THEN FALSE
          ELSE IF (cnt - 1) * Eff + hi + 1 > n THEN FALSE
          ELSE IF cnt < 2 THEN FALSE
          ELSE TRUE)
  ELSE IF hi + 1 > n THEN FALSE
  ELSE TRUE

Refines == ParseSingle <=> ValidSingle
=============================================================================
