INIT Init
NEXT Next
INVARIANTS Partition ReadOnlyUnmodifiable WriteOnlyUnreadable NoneHasNothing SetNeverConst
CHECK_DEADLOCK FALSE
