----------------------------- MODULE AttrGrammar -----------------------------
(***************************************************************************)
(* The documented grammar of the field attributes                           *)
(*     #[bit(N [, access])]                                                 *)
(*     #[bits(A..=B | [item, ...] [, access] [, stride = K | stride: K])]   *)
(* as a recogniser over ITEM sequences, three-valued so that the check      *)
(* never demands more than the documentation promises:                      *)
(*   must_accept  canonical order (range, access, stride), well-formed      *)
(*                items, head matching the range form, stride only on arrays*)
(*   must_reject  a malformed item, no range, two ranges, bit( ) with a     *)
(*                range / bits( ) with a bare number, unknown identifier,    *)
(*                stride on a non-array field                               *)
(*   unspecified  well-formed items in a non-canonical order, repeated      *)
(*                access specifiers                                         *)
(* TLC enumerates the attribute space (product of the item alphabets); the  *)
(* real macro judges each; accepted ones are additionally exercised through *)
(* the getter/setter traces with the positions the grammar assigns, so a    *)
(* mis-parse (e.g. a list read in the wrong order) is caught as well.       *)
(***************************************************************************)
EXTENDS Naturals, Sequences, FiniteSets, TLC, Json, IOUtils

(* an item: [text, cls, ranges] ; cls \in range | single | list | access | stride | stridelegacy | bad *)
I(text, cls, ranges) == [text |-> text, cls |-> cls, ranges |-> ranges]
Odd(it) == [text |-> it.text, cls |-> it.cls, ranges |-> it.ranges, odd |-> TRUE]
IsOdd(it) == "odd" \in DOMAIN it /\ it.odd
RangeItems ==
  { I("2..=3", "range", << <<2, 3>> >>), I("5", "single", << <<5, 5>> >>),
    I("[2..=3]", "list", << <<2, 3>> >>), I("[5, 2]", "list", << <<5, 5>>, <<2, 2>> >>),
    I("[6..=6, 3]", "list", << <<6, 6>>, <<3, 3>> >>), I("[7, 0..=0]", "list", << <<7, 7>>, <<0, 0>> >>),
    (* decimal literals with leading zeros (Rust has no C-style octal: 010 is ten); odd, so acceptance is left open, but an
       accepted one must mean the decimal number *)
    Odd(I("010..=011", "range", << <<10, 11>> >>)), Odd(I("012", "single", << <<12, 12>> >>)),
    Odd(I("[010, 02..=03]", "list", << <<10, 10>>, <<2, 3>> >>)), Odd(I("002..=0003", "range", << <<2, 3>> >>)),
    (* bit numbers are plain decimal: hex / underscore / suffixed literals are refused, not read by their leading digits *)
    I("0x2..=0x3", "bad", <<>>), I("2..=0x3", "bad", <<>>), I("0x5", "bad", <<>>), I("1_0..=1_1", "bad", <<>>), I("2..=3usize", "bad", <<>>),
    I("[0x5, 2]", "bad", <<>>),
    I("2..3", "bad", <<>>), I("2..", "bad", <<>>), I("..=3", "bad", <<>>), I("2..=", "bad", <<>>),
    I("[2..3]", "bad", <<>>), I("2..=3..=4", "bad", <<>>), I("2=3", "bad", <<>>), I("2...3", "bad", <<>>) }
AccessItems == { I("r", "access", <<>>), I("w", "access", <<>>), I("rw", "access", <<>>),
                 I("x", "bad", <<>>), I("read", "bad", <<>>), I("rw rw", "bad", <<>>) }
(* the value of a stride item rides in its `ranges` field *)
StrideItems == { I("stride = 2", "stride", << <<2, 2>> >>), I("stride: 2", "stride", << <<2, 2>> >>), I("stride = 4", "stride", << <<4, 4>> >>),
                 I("stride = 1", "stride", << <<1, 1>> >>),  \* smaller than the two-bit ranges: semantically invalid there, in ANY order
                 Odd(I("stride = 010", "stride", << <<10, 10>> >>)),
                 I("stride = 0x2", "bad", <<>>), I("stride 2", "bad", <<>>), I("stride =", "bad", <<>>), I("stride = x", "bad", <<>>), I("stride", "bad", <<>>),
                 I("step = 2", "bad", <<>>) }

Cls(items) == [k \in 1..Len(items) |-> items[k].cls]
IsRangeCls(c) == c \in {"range", "single", "list"}
NRange(items) == Cardinality({k \in 1..Len(items) : IsRangeCls(items[k].cls)})
HasBad(items) == \E k \in 1..Len(items) : items[k].cls = "bad"
HasStride(items) == \E k \in 1..Len(items) : items[k].cls = "stride"
RangeItem(items) == items[CHOOSE k \in 1..Len(items) : IsRangeCls(items[k].cls)]
HeadMatches(head, it) == IF head = "bit" THEN it.cls = "single" ELSE it.cls \in {"range", "list"}
(* bit([..]) -- a list under the single-bit head -- is neither documented nor clearly wrong *)
HeadOdd(head, it) == head = "bit" /\ it.cls = "list"
Canonical(items) ==
  \/ Len(items) = 1 /\ IsRangeCls(items[1].cls)
  \/ Len(items) = 2 /\ IsRangeCls(items[1].cls) /\ items[2].cls \in {"access", "stride"}
  \/ Len(items) = 3 /\ IsRangeCls(items[1].cls) /\ items[2].cls = "access" /\ items[3].cls = "stride"

(* a trailing comma after the last item: conventional in Rust, not documented *)
Trailing(g) == "trailing" \in DOMAIN g /\ g.trailing
(* token-level spaces (ArgTokens.tla) do not enforce the rejection of malformed attributes: C09 quantifies over well-formed ones *)
EnforceReject(g) == ~("enforce_reject" \in DOMAIN g) \/ g.enforce_reject

(* the items written in TWO attributes on the field -- #[bits(2..=3, stride = 4)] #[bits(rw)] -- split after item `split`:
   not documented (may be rejected), but if accepted it can only mean what the items say *)
SplitAt(g) == IF "split" \in DOMAIN g THEN g.split ELSE 0
(* g = [head, items, isarray] *)
GrammarVerdict(g) ==
  IF g.items = <<>> \/ HasBad(g.items) \/ NRange(g.items) # 1 THEN "must_reject"
  ELSE IF HeadOdd(g.head, RangeItem(g.items)) THEN "unspecified"
  ELSE IF ~HeadMatches(g.head, RangeItem(g.items)) THEN "must_reject"
  ELSE IF HasStride(g.items) /\ ~g.isarray THEN "must_reject"
  ELSE IF Cardinality({k \in 1..Len(g.items) : g.items[k].cls = "stride"}) > 1 THEN "unspecified"
  ELSE IF Canonical(g.items) /\ ~Trailing(g) /\ SplitAt(g) = 0 /\ ~(\E k \in 1..Len(g.items) : IsOdd(g.items[k])) THEN "must_accept"
  ELSE "unspecified"
(* the MEANING of an attribute does not depend on the order of its items: whenever every item is well formed, there is
   exactly one range item matching the head, and access / stride occur at most once, the attribute -- if it is accepted
   at all -- must mean what its items say (a re-ordered attribute may be rejected, but never mis-parsed) *)
MeaningDefined(g) ==
  /\ g.items # <<>> /\ ~HasBad(g.items) /\ NRange(g.items) = 1
  (* bit([..]) -- a list under the single-bit head -- may be rejected, but an accepted one means its list *)
  /\ (HeadMatches(g.head, RangeItem(g.items)) \/ HeadOdd(g.head, RangeItem(g.items)))
  /\ Cardinality({k \in 1..Len(g.items) : g.items[k].cls = "access"}) <= 1
  /\ Cardinality({k \in 1..Len(g.items) : g.items[k].cls = "stride"}) <= 1
  /\ (HasStride(g.items) => g.isarray)
(* what a well-formed attribute means *)
GRanges(g) == RangeItem(g.items).ranges
GAccess(g) == LET acc == {k \in 1..Len(g.items) : g.items[k].cls = "access"} IN
              IF acc = {} THEN "none" ELSE g.items[CHOOSE k \in acc : TRUE].text
GStride(g) == LET st == {k \in 1..Len(g.items) : g.items[k].cls = "stride"} IN
              IF st = {} THEN <<>> ELSE <<g.items[CHOOSE k \in st : TRUE].ranges[1][1]>>
---------------------------------------------------------------------------
(* enumeration of the attribute space *)
Level == IF "SPACE_LEVEL" \in DOMAIN IOEnv THEN atoi(IOEnv.SPACE_LEVEL) ELSE 1
Seqs1 == {<<a>> : a \in RangeItems \cup AccessItems \cup StrideItems}
Seqs2 == {<<a, b>> : a \in RangeItems, b \in AccessItems \cup StrideItems \cup (IF Level >= 2 THEN RangeItems ELSE {I("2..=3", "range", << <<2, 3>> >>)})}
         \cup {<<b, a>> : a \in RangeItems, b \in {I("rw", "access", <<>>), I("stride = 2", "stride", << <<2, 2>> >>)}}
SeqsPerm == {<<c, a, b>> : a \in {r \in RangeItems : r.cls # "bad"}, b \in {I("rw", "access", <<>>), I("w", "access", <<>>)}, c \in {I("stride = 4", "stride", << <<4, 4>> >>), I("stride: 2", "stride", << <<2, 2>> >>), I("stride = 1", "stride", << <<1, 1>> >>)}}
            \cup {<<c, a>> : a \in {r \in RangeItems : r.cls # "bad"}, c \in {I("stride = 4", "stride", << <<4, 4>> >>), I("stride = 1", "stride", << <<1, 1>> >>)}}
            \cup {<<b, c, a>> : a \in {r \in RangeItems : r.cls = "range"}, b \in {I("rw", "access", <<>>)}, c \in {I("stride = 4", "stride", << <<4, 4>> >>), I("stride = 1", "stride", << <<1, 1>> >>)}}
            \cup {<<a, c, b>> : a \in {r \in RangeItems : r.cls = "range"}, b \in {I("rw", "access", <<>>)}, c \in {I("stride = 1", "stride", << <<1, 1>> >>)}}
Seqs3 == {<<a, b, c>> : a \in (IF Level >= 2 THEN RangeItems ELSE {r \in RangeItems : r.cls # "bad"}), b \in AccessItems, c \in StrideItems}
         \cup {<<a, c, b>> : a \in {r \in RangeItems : r.cls # "bad"}, b \in {I("rw", "access", <<>>)}, c \in {I("stride = 2", "stride", << <<2, 2>> >>)}}
         \cup {<<a, b, b2>> : a \in {r \in RangeItems : r.cls = "range"}, b \in {I("r", "access", <<>>)}, b2 \in {I("w", "access", <<>>), I("r", "access", <<>>)}}
AllSeqs == {<<>>} \cup Seqs1 \cup Seqs2 \cup Seqs3 \cup SeqsPerm
SplitSeqs == {s \in Seqs2 \cup Seqs3 \cup SeqsPerm : ~HasBad(s) /\ NRange(s) = 1}
Space == {[head |-> h, items |-> s, isarray |-> arr, split |-> 0] : h \in {"bit", "bits"}, s \in AllSeqs, arr \in BOOLEAN}
         \cup {g \in [head : {"bit", "bits"}, items : SplitSeqs, isarray : BOOLEAN, split : 1..2] : g.split < Len(g.items)}
=============================================================================
