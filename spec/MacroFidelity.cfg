CONSTANTS
  FixBounds = TRUE
  FixReversed = TRUE
  FixSelfOverlap = TRUE
INIT Init
NEXT Next
