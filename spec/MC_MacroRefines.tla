--------------------------- MODULE MC_MacroRefines ---------------------------
(* Design-level refinement check: over the exhaustively enumerated single-field declaration space (DeclSpace.tla) the   *)
(* implementation-shaped model of parse_field decides exactly as the documented rule does, for a macro built with and   *)
(* without overflow checks.  With the repairs switched off (MC_MacroRefines_unfixed.cfg) TLC finds the original defects.*)
EXTENDS DeclSpace, MacroModel
Refines == (done /\ Verdict(decl) # "unspecified") =>
              \A p \in {"dev", "release"} : ParseAccepts(decl, p) <=> (Verdict(decl) = "accept")
(* the verdict of the macro must not depend on the profile the macro itself was built with *)
ProfileIndependent == done => (ParseAccepts(decl, "dev") <=> ParseAccepts(decl, "release"))
=============================================================================
