------------------------------- MODULE Decl -------------------------------
(***************************************************************************)
(* Declarations of bitbybit bitfields as data, their bit geometry, and the  *)
(* DOCUMENTED rules (README + property statements) about them.  Nothing in  *)
(* this module is transcribed from the macro's code; MacroModel.tla is the  *)
(* implementation-shaped twin.                                              *)
(*                                                                         *)
(* A bit-vector is a SET OF BIT POSITIONS everywhere (TLC integers are 32   *)
(* bit, registers are up to 128 bit).                                       *)
(*                                                                         *)
(* Declaration record (also the JSON schema shared with gen/ and harness/): *)
(*  [ id, name, n, s, def : <<>> | <<bits>>, defform, defsyn, debug,        *)
(*    fields : Seq(Field), enums : Seq(Enum), nested : Seq(Nested) ]        *)
(* Field:                                                                  *)
(*  [ name, kind \in {"bool","uarb","unat","inat","enum","optenum",          *)
(*    "nested"}, tw, ty, ranges : Seq(<<lo,hi>>), list : BOOLEAN,           *)
(*    array : <<>> | <<count>>, stride : <<>> | <<s>>, access ]             *)
(* Enum:   [ name, n, exh, variants : Seq([name, d : Seq(bit)]) ]            *)
(* Nested: [ name, n ]                                                      *)
(***************************************************************************)
EXTENDS Naturals, Sequences, FiniteSets

StorageOf(n) == IF n <= 8 THEN 8 ELSE IF n <= 16 THEN 16 ELSE IF n <= 32 THEN 32
                ELSE IF n <= 64 THEN 64 ELSE 128

SeqToSet(s) == {s[k] : k \in 1..Len(s)}
Ran(p)      == {p[k] : k \in 1..Len(p)}
Inj(p)      == \A i, j \in 1..Len(p) : p[i] = p[j] => i = j

---------------------------------------------------------------------------
(* Geometry *)

RW(r) == IF r[2] >= r[1] THEN r[2] - r[1] + 1 ELSE 0
RECURSIVE SumW(_)
SumW(rs)  == IF rs = <<>> THEN 0 ELSE RW(Head(rs)) + SumW(Tail(rs))
Width(f)  == SumW(f.ranges)
IsArray(f) == f.array # <<>>
Count(f)  == IF IsArray(f) THEN f.array[1] ELSE 1
Stride(f) == IF f.stride # <<>> THEN f.stride[1] ELSE Width(f)     \* stride defaults to the element width

RangePos(r, off) == [k \in 1..RW(r) |-> r[1] + off + k - 1]
RECURSIVE Cat(_)
Cat(ss)   == IF ss = <<>> THEN <<>> ELSE Head(ss) \o Cat(Tail(ss))

(* Pos(f,i)[k+1] is the register bit holding value bit k of element i:     *)
(* the ranges concatenated in declaration order, r0 least significant,     *)
(* moved up by i*stride.                                       (C01,C03,C04) *)
Pos(f, i) == LET off == IF IsArray(f) THEN i * Stride(f) ELSE 0
             IN  Cat([j \in 1..Len(f.ranges) |-> RangePos(f.ranges[j], off)])
ElemCover(f, i) == Ran(Pos(f, i))
Cover(f)  == UNION {ElemCover(f, i) : i \in 0..(Count(f) - 1)}
MaxBit(f) == LET his == {f.ranges[j][2] : j \in 1..Len(f.ranges)}
                 top == CHOOSE h \in his : \A g \in his : g <= h
             IN  top + (Count(f) - 1) * (IF IsArray(f) THEN Stride(f) ELSE 0)

---------------------------------------------------------------------------
(* C09: the documented acceptance rule, three-valued.                       *)

RangesOrdered(f) == \A j \in 1..Len(f.ranges) : f.ranges[j][1] <= f.ranges[j][2]
TypeFits(f) == IF f.kind = "bool" THEN Len(f.ranges) = 1 /\ Width(f) = 1
               ELSE f.tw = Width(f)
ArrayOK(f)  == IsArray(f) =>
                 /\ Count(f) >= 2
                 /\ (Len(f.ranges) = 1 => Stride(f) >= Width(f))
                 /\ (Len(f.ranges) > 1 => f.stride # <<>>)
InBounds(d, f) == MaxBit(f) < d.n
ValidField(d, f) == /\ f.ranges # <<>>
                    /\ RangesOrdered(f)
                    /\ TypeFits(f)
                    /\ ArrayOK(f)
                    /\ InBounds(d, f)
Valid(d) == \A j \in 1..Len(d.fields) : ValidField(d, d.fields[j])

(* C06/C11: a declared default is a value of the base type: it has no bit at or above the declared width *)
DefaultFits(d) == d.def = <<>> \/ SeqToSet(d.def[1]) \subseteq 0..(d.n - 1)

(* The statement leaves two corners open, and the verdict is three-valued so  *)
(* that the check never demands more than C09 states:                        *)
(*  - an array of NON-contiguous elements whose explicit stride is smaller    *)
(*    than the element width: interleaving elements are explicitly allowed    *)
(*    by C04 and by the suite, so the stride>=width clause is applied to      *)
(*    contiguous elements only (such declarations are "accept");              *)
(*  - a range list that names the same bit twice within one element: every    *)
(*    written clause holds ("type width = number of bits selected" counting   *)
(*    multiplicity), but C04 puts such lists outside its guarantee and a      *)
(*    list that gathers more bits than the base has cannot be represented;    *)
(*    whether they compile is "unspecified" and not judged.                   *)
DupBits(f) == f.ranges # <<>> /\ RangesOrdered(f) /\ ~Inj(Pos(f, 0))
(* supported base types: u8..u128 and the arbitrary-int widths, i.e. uN with 1 <= N <= 128 *)
BaseOK(d) == d.n \in 1..128
Verdict(d) == IF ~BaseOK(d) \/ ~Valid(d) THEN "reject"
              ELSE IF \E j \in 1..Len(d.fields) : DupBits(d.fields[j]) THEN "unspecified"
              ELSE "accept"

---------------------------------------------------------------------------
(* C17: API surface *)
Readable(f) == f.access \in {"r", "rw"}
Writable(f) == f.access \in {"w", "rw"}

(* C19: the `debug` option applies to bitfields whose fields are all readable and not arrays; others do not compile with it *)
DebugApplies(d) == \A j \in 1..Len(d.fields) : Readable(d.fields[j]) /\ d.fields[j].array = <<>>

(* name mangling: with_/set_ drop a leading r# *)
StripRaw(nm) == nm     \* names in this model never carry r#; the harness covers r# idents textually

Api(d) ==
  {[m |-> "raw_value", const |-> TRUE], [m |-> "new_with_raw_value", const |-> TRUE],
   [m |-> "ZERO", const |-> TRUE]}
  \cup (IF d.def # <<>> THEN {[m |-> "DEFAULT", const |-> TRUE], [m |-> "new", const |-> TRUE],
                              [m |-> "default", const |-> FALSE]} ELSE {})
  \cup UNION {
        (IF Readable(d.fields[j]) THEN {[m |-> "get:" \o d.fields[j].name, const |-> TRUE]} ELSE {})
        \cup (IF Writable(d.fields[j]) THEN {[m |-> "with:" \o d.fields[j].name, const |-> TRUE],
                                             [m |-> "set:" \o d.fields[j].name, const |-> FALSE]} ELSE {})
        : j \in 1..Len(d.fields)}
AbsentApi(d) ==
  UNION {
        (IF ~Readable(d.fields[j]) THEN {"get:" \o d.fields[j].name} ELSE {})
        \cup (IF ~Writable(d.fields[j]) THEN {"with:" \o d.fields[j].name, "set:" \o d.fields[j].name,
                                               "step:" \o d.fields[j].name} ELSE {})
        : j \in 1..Len(d.fields)}

---------------------------------------------------------------------------
(* C13/C14: builder *)
WritableIdx(d) == SelectSeq([j \in 1..Len(d.fields) |-> j], LAMBDA j : Writable(d.fields[j]))
WCover(d)  == UNION {Cover(d.fields[j]) : j \in {j \in 1..Len(d.fields) : Writable(d.fields[j])}}

(* some bit is writable through two ranges / two elements of the same field *)
SelfOverlap(f) ==
  \/ \E i \in 0..(Count(f) - 1) : ~Inj(Pos(f, i))
  \/ \E i, j \in 0..(Count(f) - 1) : i # j /\ ElemCover(f, i) \cap ElemCover(f, j) # {}
CrossOverlap(d) == \E a, b \in 1..Len(d.fields) :
                      /\ a # b /\ Writable(d.fields[a]) /\ Writable(d.fields[b])
                      /\ Cover(d.fields[a]) \cap Cover(d.fields[b]) # {}
BuilderSound(d) ==
  /\ ~CrossOverlap(d)
  /\ \A j \in 1..Len(d.fields) : Writable(d.fields[j]) => ~SelfOverlap(d.fields[j])
  /\ (d.def # <<>> \/ WCover(d) = 0..(d.n - 1))

FieldMask(f) == Cover(f)
(* the type-state (const generic MASK) after the first k writable fields *)
MaskAfter(d, k) == UNION {Cover(d.fields[WritableIdx(d)[m]]) : m \in 1..k}
FinalMask(d)    == MaskAfter(d, Len(WritableIdx(d)))

(* calls: sequence of "with:<name>" / "build" strings, applied to builder() *)
ChainCanon(d) == [m \in 1..Len(WritableIdx(d)) |-> "with:" \o d.fields[WritableIdx(d)[m]].name] \o <<"build">>
PrefixOf(s, t) == Len(s) <= Len(t) /\ \A k \in 1..Len(s) : s[k] = t[k]
WritableNames(d) == {"with:" \o d.fields[WritableIdx(d)[m]].name : m \in 1..Len(WritableIdx(d))}
ChainVerdict(d, calls) ==
  IF ~BuilderSound(d) THEN "must_fail"                                   \* builder() does not exist
  ELSE IF PrefixOf(calls, ChainCanon(d)) THEN "must_compile"
  ELSE IF \E k \in 1..Len(calls) : calls[k] # "build" /\ calls[k] \notin WritableNames(d)
       THEN "must_fail"                                                  \* a step for a field that is not writable
  ELSE IF /\ calls # <<>> /\ calls[Len(calls)] = "build"
          /\ \E nm \in WritableNames(d) : nm \notin Ran(calls)
       THEN "must_fail"                                                  \* build() while a writable field is missing
  ELSE "unspecified"                                                     \* complete but re-ordered / repeated

(* both conversions of every bitenum used by the declaration are const (C15) *)
EnumApi(d) == UNION {{[m |-> "enum_from:" \o d.enums[k].name, const |-> TRUE], [m |-> "enum_to:" \o d.enums[k].name, const |-> TRUE]}
                     : k \in 1..Len(d.enums)}
(* const members that exist only when the builder is offered *)
BuilderApi(d) == IF BuilderSound(d)
                 THEN {[m |-> "builder", const |-> TRUE], [m |-> "build", const |-> TRUE]}
                      \cup {[m |-> "step:" \o d.fields[WritableIdx(d)[m]].name, const |-> TRUE] : m \in 1..Len(WritableIdx(d))}
                 ELSE {}

InitialValue(d) == IF d.def # <<>> THEN SeqToSet(d.def[1]) ELSE {}

---------------------------------------------------------------------------
(* Semantics of windows: a window is a sequence p of bit positions, value   *)
(* bit k lives at p[k+1].  Frame and RoundTrip are proved for unbounded     *)
(* width in RegisterProofs.tla.                                             *)
Read(r, p)     == {k - 1 : k \in {k \in 1..Len(p) : p[k] \in r}}
Write(r, p, v) == (r \ Ran(p)) \cup {p[k + 1] : k \in v}
=============================================================================
