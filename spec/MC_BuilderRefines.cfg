CONSTANTS
  FixBounds = TRUE
  FixReversed = TRUE
  FixSelfOverlap = TRUE
INIT Init
NEXT Next
INVARIANTS BuilderRefines
CHECK_DEADLOCK FALSE
