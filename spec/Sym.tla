--------------------------------- MODULE Sym ---------------------------------
(***************************************************************************)
(* Recorded macro output -> specification (translation validation).         *)
(*                                                                         *)
(* The token stream the macro ACTUALLY emitted for a declaration (dumped by *)
(* the verif_hooks hook, turned into a JSON IR by harness/xpand2ir) is      *)
(* evaluated here over a SYMBOLIC bit-vector domain, which decides a getter *)
(* or setter for ALL raw values and ALL field values of a layout at once:   *)
(*                                                                         *)
(*   sbit  ==  an OR of a constant and a set of input literals <<src, k>>   *)
(*             (src "r" = bit k of raw_value, "v" = bit k of the argument), *)
(*             or TOP when the value leaves this domain                     *)
(*                                                                         *)
(* Obligations per (field, operation, index), against Decl!Pos:             *)
(*   getter  result bit k = literal r[Pos[k+1]], typed as declared           *)
(*   setter  result bit b = v[k] if b = Pos[k+1], r[b] otherwise; bits >= N  *)
(*           stay zero (inductive step of C11: the input raw has them zero)  *)
(*   index >= K  evaluates to the assert panic                                *)
(*   no shift by >= the width, no extract_uN contract violation, on any      *)
(*   evaluated path (C16)                                                     *)
(* Anything outside the domain (TOP, an IR construct not modelled) yields    *)
(* "undecided" -- never a violation.  A "mismatch" is turned into concrete   *)
(* witness inputs that are run against the real code before any alarm.       *)
(***************************************************************************)
EXTENDS Decl, TLC, Json, IOUtils

Zero == [c |-> FALSE, l |-> {}, top |-> FALSE]
One  == [c |-> TRUE,  l |-> {}, top |-> FALSE]
Top  == [c |-> FALSE, l |-> {}, top |-> TRUE]
Lit(s, k) == [c |-> FALSE, l |-> {<<s, k>>}, top |-> FALSE]
IsConstBit(a) == a = Zero \/ a = One
BOr(a, b)  == IF a = One \/ b = One THEN One
              ELSE IF a.top \/ b.top THEN Top
              ELSE [c |-> FALSE, l |-> a.l \cup b.l, top |-> FALSE]
BAnd(a, b) == IF a = Zero \/ b = Zero THEN Zero
              ELSE IF a = One THEN b ELSE IF b = One THEN a
              ELSE IF a = b /\ ~a.top THEN a ELSE Top
BNot(a)    == IF a = Zero THEN One ELSE IF a = One THEN Zero ELSE Top
BXor(a, b) == IF a = Zero THEN b ELSE IF b = Zero THEN a
              ELSE IF IsConstBit(a) /\ IsConstBit(b) THEN (IF a = b THEN Zero ELSE One) ELSE Top
BIte(c, a, b) == IF a = b THEN a
                 ELSE IF c = One THEN a ELSE IF c = Zero THEN b
                 ELSE IF a = One /\ b = Zero THEN c
                 ELSE Top

(* values *)
BV(w, sg, arb, f(_)) == [k |-> "bv", w |-> w, sg |-> sg, arb |-> arb, b |-> [i \in 0..(w - 1) |-> f(i)]]
Num(n)    == [k |-> "n", n |-> n]
Bool(b)   == [k |-> "bool", b |-> b]
Panic(w)  == [k |-> "panic", why |-> w]
Unk(w)    == [k |-> "unk", why |-> w]
Obj(raw)  == [k |-> "obj", raw |-> raw]
Cust(ty, arg) == [k |-> "cust", ty |-> ty, arg |-> arg]
Unit      == [k |-> "unit"]
IsBad(v)  == v.k \in {"panic", "unk"}
(* a panic anywhere makes the call panic; otherwise an undecided part makes the whole undecided *)
Bad2(a, b) == IF a.k = "panic" THEN a ELSE IF b.k = "panic" THEN b ELSE IF a.k = "unk" THEN a ELSE b

IntTypes == {"u8", "u16", "u32", "u64", "u128", "i8", "i16", "i32", "i64", "i128"}
TyW(ty) == CASE ty \in {"u8", "i8"} -> 8 [] ty \in {"u16", "i16"} -> 16 [] ty \in {"u32", "i32"} -> 32
             [] ty \in {"u64", "i64"} -> 64 [] ty \in {"u128", "i128"} -> 128
TySigned(ty) == ty \in {"i8", "i16", "i32", "i64", "i128"}
ConstBV(w, sg, bits) == BV(w, sg, FALSE, LAMBDA i : IF i \in bits THEN One ELSE Zero)
IsConstBV(v) == v.k = "bv" /\ \A i \in 0..(v.w - 1) : IsConstBit(v.b[i])
OnesOf(v) == {i \in 0..(v.w - 1) : v.b[i] = One}
RECURSIVE SetVal(_)
SetVal(S) == IF S = {} THEN 0 ELSE LET x == CHOOSE y \in S : TRUE IN 2^x + SetVal(S \ {x})

Shl(v, n) == IF n >= v.w THEN Panic("shift left by >= width")
             ELSE BV(v.w, v.sg, FALSE, LAMBDA i : IF i >= n THEN v.b[i - n] ELSE Zero)
Shr(v, n) == IF n >= v.w THEN Panic("shift right by >= width")
             ELSE BV(v.w, v.sg, FALSE, LAMBDA i : IF i + n < v.w THEN v.b[i + n] ELSE IF v.sg THEN v.b[v.w - 1] ELSE Zero)
Bin2(a, b, op(_, _)) == IF a.w # b.w THEN Unk("width mismatch") ELSE BV(a.w, a.sg, FALSE, LAMBDA i : op(a.b[i], b.b[i]))
(* x - y for constants, bit-serial with borrow (wrapping; the macro only ever emits (1 << n) - 1) *)
RECURSIVE SubBits(_, _, _, _, _)
SubBits(xa, xb, w, i, borrow) ==
  IF i >= w THEN {}
  ELSE LET a == IF i \in xa THEN 1 ELSE 0  b == IF i \in xb THEN 1 ELSE 0
           d == a - b - borrow + 2
       IN (IF d % 2 = 1 THEN {i} ELSE {}) \cup SubBits(xa, xb, w, i + 1, IF a - b - borrow + 2 < 2 THEN 1 ELSE 0)
(* A < B as unsigned numbers given as sets of bit positions *)
LessBits(A, B) == \E i \in B \ A : \A j \in (A \cup B) : j > i => (j \in A <=> j \in B)
SubBV(a, b) == IF IsConstBV(a) /\ IsConstBV(b) /\ a.w = b.w
               THEN (IF LessBits(OnesOf(a), OnesOf(b)) THEN Panic("attempt to subtract with overflow")
                     ELSE ConstBV(a.w, a.sg, SubBits(OnesOf(a), OnesOf(b), a.w, 0, 0)))
               ELSE Unk("symbolic subtraction")
OrReduce(v) == LET RECURSIVE go(_, _)
                   go(i, acc) == IF i >= v.w THEN acc ELSE go(i + 1, BOr(acc, v.b[i]))
               IN go(0, Zero)
Cast(v, ty) ==
  IF v.k = "bool" THEN (IF ty \in IntTypes THEN BV(TyW(ty), TySigned(ty), FALSE, LAMBDA i : IF i = 0 THEN v.b ELSE Zero) ELSE Unk("cast of bool"))
  ELSE IF v.k = "n" THEN (IF ty = "usize" THEN v
                          ELSE IF ty \in IntTypes /\ v.n >= 0 /\ v.n < 2^30
                               THEN ConstBV(TyW(ty), TySigned(ty), {i \in 0..29 : (v.n \div 2^i) % 2 = 1 /\ i < TyW(ty)})
                               ELSE Unk("cast of usize"))
  ELSE IF v.k # "bv" \/ v.arb THEN Unk("cast of non-integer")
  ELSE IF ty \notin IntTypes THEN Unk("cast to " \o ty)
  ELSE BV(TyW(ty), TySigned(ty), FALSE, LAMBDA i : IF i < v.w THEN v.b[i] ELSE IF v.sg THEN v.b[v.w - 1] ELSE Zero)

ArbWidth(name) ==   \* "u5" -> 5 ; 0 when the name is not uN
  LET cands == {n \in 1..128 : name = "u" \o ToString(n)} IN IF cands = {} THEN 0 ELSE CHOOSE n \in cands : TRUE
Merge(c, a, b) ==
  IF a = b THEN a
  ELSE IF a.k = "panic" \/ b.k = "panic" THEN (IF a.k = "panic" THEN a ELSE b)     \* a reachable panic
  ELSE IF a.k = "unk" THEN a ELSE IF b.k = "unk" THEN b
  ELSE IF a.k = "bv" /\ b.k = "bv" /\ a.w = b.w THEN BV(a.w, a.sg, a.arb, LAMBDA i : BIte(c, a.b[i], b.b[i]))
  ELSE IF a.k = "obj" /\ b.k = "obj" /\ a.raw.k = "bv" /\ b.raw.k = "bv" /\ a.raw.w = b.raw.w
       THEN Obj(BV(a.raw.w, FALSE, FALSE, LAMBDA i : BIte(c, a.raw.b[i], b.raw.b[i])))
  ELSE IF a.k = "bool" /\ b.k = "bool" THEN Bool(BIte(c, a.b, b.b))
  ELSE Unk("merge of different kinds")

Last(s) == s[Len(s)]
RECURSIVE Eval(_, _)
EvalArgs(args, env) == [j \in 1..Len(args) |-> Eval(args[j], env)]
Eval(n, env) ==
  CASE n.op = "lit" -> IF n.ty \in {"usize", ""} THEN (IF n.n >= 0 THEN Num(n.n)
                                                      ELSE IF n.ty = "" THEN ConstBV(128, FALSE, SeqToSet(n.bits))    \* a wide untyped integer literal
                                                      ELSE Unk("large usize literal"))
                       ELSE IF n.ty \in IntTypes THEN ConstBV(TyW(n.ty), TySigned(n.ty), SeqToSet(n.bits))
                       ELSE Unk("literal type " \o n.ty)
    [] n.op = "blit" -> Bool(IF n.v THEN One ELSE Zero)
    [] n.op = "unit" -> Unit
    [] n.op = "var" -> IF n.name \in DOMAIN env THEN env[n.name] ELSE Unk("free variable " \o n.name)
    [] n.op = "raw" -> env["self.raw_value"]
    [] n.op \in {"shl", "shr"} ->
         LET a == Eval(n.a, env)  b == Eval(n.b, env) IN
         IF IsBad(a) \/ IsBad(b) THEN Bad2(a, b)
         ELSE IF a.k = "bv" /\ ~a.arb /\ b.k = "n" THEN (IF n.op = "shl" THEN Shl(a, b.n) ELSE Shr(a, b.n))
         ELSE IF a.k = "n" /\ b.k = "n" /\ n.op = "shl" /\ b.n < 30 /\ a.n * 2^b.n < 2^30 THEN Num(a.n * 2^b.n)
         ELSE Unk("shift operands")
    [] n.op \in {"and", "or", "xor"} ->
         LET a == Eval(n.a, env)  b == Eval(n.b, env) IN
         IF IsBad(a) \/ IsBad(b) THEN Bad2(a, b)
         ELSE IF a.k = "bv" /\ b.k = "bv" /\ ~a.arb /\ ~b.arb
              THEN (IF n.op = "and" THEN Bin2(a, b, BAnd) ELSE IF n.op = "or" THEN Bin2(a, b, BOr) ELSE Bin2(a, b, BXor))
         ELSE IF a.k = "bool" /\ b.k = "bool"
              THEN Bool(IF n.op = "and" THEN BAnd(a.b, b.b) ELSE IF n.op = "or" THEN BOr(a.b, b.b) ELSE BXor(a.b, b.b))
         ELSE Unk("bitwise operands")
    [] n.op = "not" -> LET a == Eval(n.a, env) IN
         IF IsBad(a) THEN a
         ELSE IF a.k = "bv" /\ ~a.arb THEN BV(a.w, a.sg, FALSE, LAMBDA i : BNot(a.b[i]))
         ELSE IF a.k = "bool" THEN Bool(BNot(a.b)) ELSE Unk("not operand")
    [] n.op \in {"add", "sub", "mul"} ->
         LET a == Eval(n.a, env)  b == Eval(n.b, env) IN
         IF IsBad(a) \/ IsBad(b) THEN Bad2(a, b)
         ELSE IF a.k = "n" /\ b.k = "n"
              THEN (IF n.op = "add" THEN Num(a.n + b.n) ELSE IF n.op = "mul" THEN Num(a.n * b.n)
                    ELSE IF a.n >= b.n THEN Num(a.n - b.n) ELSE Panic("usize subtraction underflow"))
         ELSE IF a.k = "bv" /\ b.k = "bv" /\ n.op = "sub" THEN SubBV(a, b)
         ELSE Unk("arithmetic operands")
    [] n.op \in {"lt", "le", "gt", "ge"} ->
         LET a == Eval(n.a, env)  b == Eval(n.b, env) IN
         IF IsBad(a) \/ IsBad(b) THEN Bad2(a, b)
         ELSE IF a.k = "n" /\ b.k = "n"
              THEN Bool(IF (CASE n.op = "lt" -> a.n < b.n [] n.op = "le" -> a.n <= b.n [] n.op = "gt" -> a.n > b.n [] n.op = "ge" -> a.n >= b.n)
                        THEN One ELSE Zero)
         ELSE Unk("comparison operands")
    [] n.op \in {"ne", "eq"} ->
         LET a == Eval(n.a, env)  b == Eval(n.b, env) IN
         IF IsBad(a) \/ IsBad(b) THEN Bad2(a, b)
         ELSE IF a.k = "n" /\ b.k = "n" THEN Bool(IF (a.n # b.n) = (n.op = "ne") THEN One ELSE Zero)
         ELSE IF a.k = "bv" /\ ((b.k = "n" /\ b.n = 0) \/ (IsConstBV(b) /\ OnesOf(b) = {}))
              THEN Bool(IF n.op = "ne" THEN OrReduce(a) ELSE BNot(OrReduce(a)))
         ELSE Unk("equality operands")
    [] n.op = "cast" -> LET a == Eval(n.a, env) IN IF IsBad(a) THEN a ELSE Cast(a, n.ty)
    [] n.op = "if" -> LET c == Eval(n.c, env) IN
         IF IsBad(c) THEN c
         ELSE IF c.k # "bool" THEN Unk("condition")
         ELSE IF c.b = One THEN Eval(n.t, env) ELSE IF c.b = Zero THEN Eval(n.e, env)
         ELSE Merge(c.b, Eval(n.t, env), Eval(n.e, env))
    [] n.op = "let" -> LET v0 == Eval(n.e, env)
                           v == IF n.ty \in IntTypes /\ v0.k = "bv" /\ ~v0.arb /\ v0.w # TyW(n.ty) THEN Cast(v0, n.ty)
                                ELSE IF n.ty \in IntTypes /\ v0.k = "n" THEN Cast(v0, n.ty) ELSE v0 IN
         IF v.k = "panic" THEN v ELSE Eval(n.body, (n.name :> v) @@ env)
    [] n.op = "assert" -> LET c == Eval(n.c, env) IN
         IF IsBad(c) THEN c
         ELSE IF c.k = "bool" /\ c.b = One THEN Eval(n.body, env)
         ELSE IF c.k = "bool" /\ c.b = Zero THEN Panic("assert")
         ELSE Unk("symbolic assert")
    [] n.op = "seq" -> LET v == Eval(n.e, env) IN
         IF IsBad(v) THEN v          \* an unknown statement may have effects: the whole body is undecided
         ELSE IF n.body.op = "unit" THEN v ELSE Eval(n.body, env)
    [] n.op = "mk" -> LET v == Eval(n.e, env) IN IF IsBad(v) THEN v ELSE IF v.k = "bv" /\ ~v.arb THEN Obj(v) ELSE Unk("struct literal of non-integer")
    [] n.op = "assign" -> LET v == Eval(n.e, env) IN IF IsBad(v) THEN v ELSE IF v.k = "bv" /\ ~v.arb THEN Obj(v) ELSE Unk("assignment of non-integer")
    [] n.op = "call" ->
         LET a == EvalArgs(n.args, env)
             f == Last(n.path)
             ty == IF Len(n.path) >= 2 THEN n.path[Len(n.path) - 1] ELSE ""
             bad == {j \in 1..Len(a) : IsBad(a[j])}
         IN IF \E j \in bad : a[j].k = "panic" THEN a[CHOOSE j \in bad : a[j].k = "panic"]
            ELSE IF bad # {} THEN a[CHOOSE j \in bad : TRUE]
            ELSE IF f \in {"extract_u8", "extract_u16", "extract_u32", "extract_u64", "extract_u128"} /\ ArbWidth(ty) > 0 /\ Len(a) = 2
                 THEN LET bits == ArbWidth(ty)
                          sw == CASE f = "extract_u8" -> 8 [] f = "extract_u16" -> 16 [] f = "extract_u32" -> 32
                                  [] f = "extract_u64" -> 64 [] f = "extract_u128" -> 128 IN
                      IF a[1].k # "bv" \/ a[1].arb \/ a[2].k # "n" THEN Unk("extract operands")
                      ELSE IF a[1].w # sw THEN Unk("extract width")
                      ELSE IF a[2].n + bits > sw THEN Panic("extract_uN: start_bit + BITS > width")
                      ELSE BV(bits, FALSE, TRUE, LAMBDA i : a[1].b[i + a[2].n])
            ELSE IF f = "new" /\ ArbWidth(ty) > 0 /\ Len(a) = 1
                 THEN LET bits == ArbWidth(ty)
                          src == IF a[1].k = "n" THEN Cast(a[1], "u128") ELSE a[1] IN
                      IF src.k # "bv" \/ src.arb THEN Unk("new operand")
                      ELSE IF \E i \in bits..(src.w - 1) : src.b[i] = One THEN Panic("uN::new: value out of range")
                      ELSE IF \E i \in bits..(src.w - 1) : src.b[i] # Zero THEN Unk("uN::new of a possibly large value")
                      ELSE BV(bits, FALSE, TRUE, LAMBDA i : IF i < src.w THEN src.b[i] ELSE Zero)
            ELSE IF f = "new_with_raw_value" /\ Len(a) = 1 /\ "$self" \in DOMAIN env /\ ty \in {"Self", env["$self"].name}
                 THEN LET sw == env["$self"].s
                          src == IF a[1].k = "n" THEN Cast(a[1], "u128") ELSE a[1] IN
                      IF src.k # "bv" THEN Unk("new_with_raw_value operand")
                      ELSE Obj(BV(sw, FALSE, FALSE, LAMBDA i : IF i < src.w THEN src.b[i] ELSE Zero))
            ELSE IF Len(n.path) = 1 /\ "$self" \in DOMAIN env /\ f = ("Partial" \o env["$self"].name) /\ Len(a) = 1
                 THEN [k |-> "partial", obj |-> a[1]]
            ELSE IF f = "new_with_raw_value" /\ Len(a) = 1 /\ a[1].k = "bv" THEN Cust(ty, a[1])
            ELSE Unk("call " \o f)
    [] n.op = "mcall" ->
         LET r == Eval(n.recv, env) IN
         IF IsBad(r) THEN r
         ELSE IF n.name = "value" /\ r.k = "bv" /\ r.arb
              THEN BV(StorageOf(r.w), FALSE, FALSE, LAMBDA i : IF i < r.w THEN r.b[i] ELSE Zero)
         ELSE IF n.name = "raw_value" /\ r.k = "custin" THEN r.raw
         (* a call of another generated accessor of the same struct (builder steps call with_<f>): evaluate ITS recorded body *)
         ELSE IF r.k = "obj" /\ "$fns" \in DOMAIN env /\ n.name \in DOMAIN env["$fns"]
              THEN LET callee == env["$fns"][n.name]
                       a == EvalArgs(n.args, env)
                       bad == {j \in 1..Len(a) : IsBad(a[j])}
                   IN IF bad # {} THEN a[CHOOSE j \in bad : TRUE]
                      ELSE IF Len(a) = 1
                           THEN Eval(callee.body, [x \in {"self.raw_value", "field_value", "$fns"} |->
                                                     IF x = "self.raw_value" THEN r.raw ELSE IF x = "field_value" THEN a[1] ELSE env["$fns"]])
                      ELSE IF Len(a) = 2
                           THEN Eval(callee.body, [x \in {"self.raw_value", "index", "field_value", "$fns"} |->
                                                     IF x = "self.raw_value" THEN r.raw ELSE IF x = "index" THEN a[1]
                                                     ELSE IF x = "field_value" THEN a[2] ELSE env["$fns"]])
                      ELSE Unk("arity of " \o n.name)
         ELSE Unk("method " \o n.name)
    [] n.op = "self0" -> IF "self.0" \in DOMAIN env THEN env["self.0"] ELSE Unk("self.0")
    [] n.op = "index" ->
         LET a == Eval(n.a, env)  i == Eval(n.i, env) IN
         IF IsBad(a) \/ IsBad(i) THEN Bad2(a, i)
         ELSE IF a.k = "arr" /\ i.k = "n" THEN (IF i.n < Len(a.elems) THEN a.elems[i.n + 1] ELSE Panic("index out of bounds"))
         ELSE Unk("indexing")
    [] n.op = "path" ->
         IF "$fns" \in DOMAIN env /\ ("const:" \o Last(n.segs)) \in DOMAIN env["$fns"] /\ "$evalconsts" \in DOMAIN env
         THEN LET c == env["$fns"]["const:" \o Last(n.segs)]             \* an associated const of the struct: evaluate ITS recorded
                  v == Eval(c.body, env)                                   \* body and give it its declared type
              IN IF c.ty \in IntTypes /\ v.k = "bv" /\ ~v.arb THEN Cast(v, c.ty)
                 ELSE IF c.ty \in IntTypes /\ v.k = "n" THEN Cast(v, c.ty) ELSE v
         ELSE IF Last(n.segs) = "DEFAULT" /\ "$default" \in DOMAIN env THEN env["$default"]
         ELSE IF Last(n.segs) = "ZERO" /\ "$zero" \in DOMAIN env THEN env["$zero"]
         ELSE Unk("path")
    [] OTHER -> Unk("IR node " \o n.op)

---------------------------------------------------------------------------
(* inputs and expectations *)
RawIn(d) == BV(d.s, FALSE, FALSE, LAMBDA i : IF i < d.n THEN Lit("r", i) ELSE Zero)
NativeW(w) == w \in {8, 16, 32, 64, 128}
(* how a value of the field's declared type looks: bit k of the argument / of the expected getter result *)
Shape(f, lit(_)) ==
  LET w == Width(f) IN
  CASE f.kind = "bool" -> Bool(lit(0))
    [] f.kind = "uarb" -> BV(w, FALSE, TRUE, lit)
    [] f.kind = "unat" -> BV(w, FALSE, FALSE, lit)
    [] f.kind = "inat" -> BV(w, TRUE, FALSE, lit)
    [] OTHER -> (IF NativeW(w) THEN BV(w, FALSE, FALSE, lit) ELSE BV(w, FALSE, TRUE, lit))   \* raw value of a custom type
IsCustom(f) == f.kind \in {"enum", "optenum", "nested"}
ArgIn(f) == IF IsCustom(f) THEN [k |-> "custin", raw |-> Shape(f, LAMBDA k : Lit("v", k))] ELSE Shape(f, LAMBDA k : Lit("v", k))

GetExpected(f, p) == LET core == Shape(f, LAMBDA k : Lit("r", p[k + 1])) IN core
SetExpected(d, f, p) == BV(d.s, FALSE, FALSE,
                           LAMBDA b : IF \E k \in 1..Len(p) : p[k] = b
                                      THEN Lit("v", (CHOOSE k \in 1..Len(p) : p[k] = b) - 1)
                                      ELSE IF b < d.n THEN Lit("r", b) ELSE Zero)

(* first differing bit of two bit-vectors of equal width, for the witness *)
DiffBits(a, b) == {i \in 0..(a.w - 1) : a.b[i] # b.b[i]}
Describe(exp, got) ==
  IF got.k = "bv" /\ exp.k = "bv" /\ got.w = exp.w
  THEN LET ds == DiffBits(exp, got) IN
       IF ds = {} THEN [what |-> "type", bit |-> 0, exp |-> [w |-> exp.w, sg |-> exp.sg, arb |-> exp.arb], got |-> [w |-> got.w, sg |-> got.sg, arb |-> got.arb]]
       ELSE LET i == CHOOSE x \in ds : \A y \in ds : x <= y IN [what |-> "bit", bit |-> i, exp |-> exp.b[i], got |-> got.b[i]]
  ELSE IF got.k = "bool" /\ exp.k = "bool" THEN [what |-> "bit", bit |-> 0, exp |-> exp.b, got |-> got.b]
  ELSE [what |-> "kind", bit |-> 0, exp |-> exp.k, got |-> got.k]
HasTop(v) == v.k = "bv" /\ \E i \in 0..(v.w - 1) : v.b[i].top

(* one obligation: o = [decl, field (1-based), op, idx, body] *)
Judge(d, o) ==
  LET f == d.fields[o.field]
      p == Pos(f, o.idx)
      env0 == [x \in {"self.raw_value", "index"} |-> IF x = "index" THEN Num(o.idx) ELSE RawIn(d)]
      env == IF o.op = "get" THEN env0 ELSE ("field_value" :> ArgIn(f)) @@ env0
      r == Eval(o.body, env)
      oob == IsArray(f) /\ o.idx >= Count(f)
  IN
  IF r.k = "unk" THEN [res |-> "undecided", why |-> r.why]
  ELSE IF oob THEN (IF r.k = "panic" /\ r.why = "assert" THEN [res |-> "ok", why |-> ""]
                    ELSE [res |-> "mismatch", why |-> "an index >= K must hit the bounds assertion", detail |-> [what |-> "oob", bit |-> 0, exp |-> "assert", got |-> r.k]])
  ELSE IF r.k = "panic" THEN [res |-> "overflow", why |-> r.why]
  ELSE IF o.op = "get" THEN
         LET exp == GetExpected(f, p)
             got == IF IsCustom(f) THEN (IF r.k = "cust" THEN r.arg ELSE r) ELSE r IN
         IF HasTop(got) THEN [res |-> "undecided", why |-> "TOP"]
         ELSE IF got = exp THEN [res |-> "ok", why |-> ""]
         ELSE [res |-> "mismatch", why |-> "getter", detail |-> Describe(exp, got)]
  ELSE LET exp == SetExpected(d, f, p) IN
       IF r.k # "obj" THEN [res |-> "undecided", why |-> "setter does not produce the struct"]
       ELSE IF HasTop(r.raw) THEN [res |-> "undecided", why |-> "TOP"]
       ELSE IF r.raw = exp THEN [res |-> "ok", why |-> ""]
       ELSE [res |-> "mismatch", why |-> "setter", detail |-> Describe(exp, r.raw)]

---------------------------------------------------------------------------
(* C13 for all argument tuples: the recorded builder chain -- builder(), each with_<f> step in declaration order (each of
   which calls recorded with_<f> accessors), build() -- evaluated symbolically; the result must be the fold of Write over
   the writable fields from DEFAULT / zero, with argument element i at Pos(f, i). *)
ArgLit(k, i, f) == LET nm == "a" \o ToString(k) \o "e" \o ToString(i) IN
                   IF IsCustom(f) THEN [k |-> "custin", raw |-> Shape(f, LAMBDA b : Lit(nm, b))] ELSE Shape(f, LAMBDA b : Lit(nm, b))
ArgOf(k, f) == IF IsArray(f) THEN [k |-> "arr", elems |-> [i \in 1..Count(f) |-> ArgLit(k, i - 1, f)]] ELSE ArgLit(k, 0, f)
(* the expected raw value, built by folding the symbolic Write over (writable field k, element i) pairs *)
SymWrite(prev, p, k, i, w) == [b \in 0..(w - 1) |->
                                 IF \E m \in 1..Len(p) : p[m] = b
                                 THEN Lit("a" \o ToString(k) \o "e" \o ToString(i), (CHOOSE m \in 1..Len(p) : p[m] = b) - 1)
                                 ELSE prev[b]]
RECURSIVE FoldElemsSym(_, _, _, _, _)
FoldElemsSym(prev, f, k, i, w) == IF i >= Count(f) THEN prev ELSE FoldElemsSym(SymWrite(prev, Pos(f, i), k, i, w), f, k, i + 1, w)
RECURSIVE FoldFieldsSym(_, _, _)
FoldFieldsSym(prev, d, k) == IF k > Len(WritableIdx(d)) THEN prev
                             ELSE FoldFieldsSym(FoldElemsSym(prev, d.fields[WritableIdx(d)[k]], k, 0, d.s), d, k + 1)
BuildExpected(d) == [k |-> "bv", w |-> d.s, sg |-> FALSE, arb |-> FALSE,
                     b |-> FoldFieldsSym([b \in 0..(d.s - 1) |-> IF b \in InitialValue(d) THEN One ELSE Zero], d, 1)]
ConstObj(d, bits) == Obj(BV(d.s, FALSE, FALSE, LAMBDA i : IF i \in bits THEN One ELSE Zero))
RECURSIVE RunSteps(_, _, _, _, _)
RunSteps(d, o, cur, k, base) ==
  IF k > Len(o.steps) THEN cur
  ELSE IF cur.k # "partial" THEN (IF IsBad(cur) THEN cur ELSE Unk("builder state"))
  ELSE RunSteps(d, o, Eval(o.steps[k], ("self.0" :> cur.obj) @@ ("value" :> ArgOf(k, d.fields[WritableIdx(d)[k]])) @@ base), k + 1, base)
JudgeBuild(d, o) ==
  LET base == [x \in {"$fns", "$self", "$default", "$zero"} |->
                 IF x = "$fns" THEN o.fns ELSE IF x = "$self" THEN d
                 ELSE IF x = "$default" THEN ConstObj(d, InitialValue(d)) ELSE ConstObj(d, {})]
      start == Eval(o.builder, base)
      endst == RunSteps(d, o, start, 1, base)
      r == IF endst.k = "partial" THEN Eval(o.build, ("self.0" :> endst.obj) @@ base) ELSE endst
  IN IF Len(o.steps) # Len(WritableIdx(d)) THEN [res |-> "undecided", why |-> "number of builder steps"]
     ELSE IF r.k = "unk" THEN [res |-> "undecided", why |-> r.why]
     ELSE IF r.k = "panic" THEN [res |-> "overflow", why |-> r.why]
     ELSE IF r.k # "obj" THEN [res |-> "undecided", why |-> "build() does not produce the struct"]
     ELSE IF HasTop(r.raw) THEN [res |-> "undecided", why |-> "TOP"]
     ELSE IF r.raw = BuildExpected(d) THEN [res |-> "ok", why |-> ""]
     ELSE [res |-> "mismatch", why |-> "builder", detail |-> Describe(BuildExpected(d), r.raw)]

---------------------------------------------------------------------------
(* C06 / C11 for all raw values: new_with_raw_value(r).raw_value() = r, nothing stored at or above bit N; ZERO; DEFAULT *)
BaseIn(d) == IF d.n = d.s THEN BV(d.s, FALSE, FALSE, LAMBDA i : Lit("r", i)) ELSE BV(d.n, FALSE, TRUE, LAMBDA i : Lit("r", i))
(* DEFVAL is the user's own named constant in declarations whose default is given by name (its value is the declaration's) *)
StructEnv(d, o) == [x \in {"$fns", "$self", "$evalconsts", "DEFVAL"} |->
                      IF x = "$fns" THEN o.fns ELSE IF x = "$self" THEN d
                      ELSE IF x = "DEFVAL" THEN ConstBV(d.s, FALSE, InitialValue(d)) ELSE TRUE]
JudgeRound(d, o) ==
  LET base == StructEnv(d, o)
      made == Eval(o.fns["new_with_raw_value"].body, ("value" :> BaseIn(d)) @@ base)
      back == IF made.k = "obj" THEN Eval(o.fns["raw_value"].body, ("self.raw_value" :> made.raw) @@ base) ELSE made
      expraw == BV(d.s, FALSE, FALSE, LAMBDA i : IF i < d.n THEN Lit("r", i) ELSE Zero)
  IN IF made.k = "unk" THEN [res |-> "undecided", why |-> made.why]
     ELSE IF made.k = "panic" THEN [res |-> "overflow", why |-> made.why]
     ELSE IF made.k # "obj" THEN [res |-> "undecided", why |-> "new_with_raw_value does not produce the struct"]
     ELSE IF made.raw # expraw THEN [res |-> "mismatch", why |-> "new_with_raw_value", detail |-> Describe(expraw, made.raw)]
     ELSE IF back.k = "unk" THEN [res |-> "undecided", why |-> back.why]
     ELSE IF back.k = "panic" THEN [res |-> "overflow", why |-> back.why]
     ELSE IF back = BaseIn(d) THEN [res |-> "ok", why |-> ""]
     ELSE [res |-> "mismatch", why |-> "raw_value", detail |-> Describe(BaseIn(d), back)]
JudgeConst(d, o) ==
  LET base == StructEnv(d, o)
      nm == IF o.op = "zero" THEN "const:ZERO" ELSE "const:DEFAULT"
      exp == ConstObj(d, IF o.op = "zero" THEN {} ELSE InitialValue(d))
      r == IF nm \in DOMAIN o.fns THEN Eval(o.fns[nm].body, base) ELSE Unk("no such constant")     \* ZERO / DEFAULT have type Self
  IN IF r.k = "unk" THEN [res |-> "undecided", why |-> r.why]
     ELSE IF r.k = "panic" THEN [res |-> "overflow", why |-> r.why]
     ELSE IF r = exp THEN [res |-> "ok", why |-> ""]
     ELSE IF r.k = "obj" THEN [res |-> "mismatch", why |-> o.op, detail |-> Describe(exp.raw, r.raw)]
     ELSE [res |-> "undecided", why |-> "constant is not the struct"]

Decls == JsonDeserialize(IOEnv.DECLFILE)
Obls  == JsonDeserialize(IOEnv.OBLFILE)
Report(j) == LET o == Obls[j]
                 v == CASE o.op = "build" -> JudgeBuild(Decls[o.decl + 1], o)
                        [] o.op = "roundtrip" -> JudgeRound(Decls[o.decl + 1], o)
                        [] o.op \in {"zero", "default"} -> JudgeConst(Decls[o.decl + 1], o)
                        [] OTHER -> Judge(Decls[o.decl + 1], o) IN
             IF v.res = "ok" THEN TRUE
             ELSE PrintT(<<"SYM", ToJson([j |-> j, decl |-> o.decl, field |-> o.field, op |-> o.op, idx |-> o.idx, verdict |-> v])>>)
(* the obligations are evaluated inside the next-state relation, i.e. by a TLC worker thread whose stack size is set by -Xss
   (ASSUMEs and initial states are evaluated on the small main-thread stack) *)
VARIABLE x
Init == x = 0
Next == /\ x = 0
        /\ \A j \in 1..Len(Obls) : Report(j)
        /\ PrintT(<<"SYMDONE", Len(Obls)>>)
        /\ x' = 1
=============================================================================
