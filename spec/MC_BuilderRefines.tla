-------------------------- MODULE MC_BuilderRefines --------------------------
(* make_builder's decision (implementation-shaped) equals Decl!BuilderSound over seeded multi-field declarations       *)
(* (DeclGen in "overlap" mode, breadth-first on a tiny base so that the space is exhausted) and the builder corpora.   *)
EXTENDS DeclGen, MacroModel
BuilderRefines == done => (BuilderOfferedImpl(decl) <=> BuilderSound(decl))
=============================================================================
