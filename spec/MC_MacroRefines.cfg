CONSTANTS
  FixBounds = TRUE
  FixReversed = TRUE
  FixSelfOverlap = TRUE
INIT Init
NEXT Next
INVARIANTS Refines ProfileIndependent
CHECK_DEADLOCK FALSE
