--------------------------- MODULE MC_EnumRefines ---------------------------
(* the implementation-shaped model of the bitenum checks decides exactly as BitEnum!EnumValid over the EnumGen space *)
EXTENDS EnumGen, MacroModel
EnumRefines == done => \A p \in {"dev", "release"} : EnumAccepts(e, p) <=> EnumValid(e)
=============================================================================
