--------------------------- MODULE RegisterProofs ---------------------------
(***************************************************************************)
(* TLAPS proofs of the algebraic core of Register.tla for UNBOUNDED width   *)
(* and ARBITRARY position sequences, so that the small constants of the TLC *)
(* models are not the weak link.  The definitions are copied verbatim from  *)
(* Decl.tla (Read, Write, Ran, Inj); `tlapm RegisterProofs.tla` checks them.*)
(* Also: sign extension (C05), array element windows (C03) and range lists  *)
(* as concatenated windows (C04).                                           *)
(***************************************************************************)
EXTENDS Integers, Sequences, TLAPS

Ran(p) == {p[k] : k \in 1..Len(p)}
Inj(p) == \A i, j \in 1..Len(p) : p[i] = p[j] => i = j
Read(r, p) == {k - 1 : k \in {k \in 1..Len(p) : p[k] \in r}}
Write(r, p, v) == (r \ Ran(p)) \cup {p[k + 1] : k \in v}

(* C02/C03/C04/C05: a write changes no bit outside the window *)
THEOREM Frame ==
  ASSUME NEW r, NEW p \in Seq(Nat), NEW v \in SUBSET (0..(Len(p) - 1))
  PROVE  Write(r, p, v) \ Ran(p) = r \ Ran(p)
<1>1. \A k \in v : p[k + 1] \in Ran(p)
  BY DEF Ran
<1> QED BY <1>1 DEF Write

(* C02/C04: reading back what was written through an injective window *)
THEOREM RoundTrip ==
  ASSUME NEW r, NEW p \in Seq(Nat), Inj(p), NEW v \in SUBSET (0..(Len(p) - 1))
  PROVE  Read(Write(r, p, v), p) = v
<1>1. ASSUME NEW k \in 1..Len(p) PROVE (p[k] \in Write(r, p, v)) <=> (k - 1 \in v)
  <2>1. p[k] \in Ran(p) BY DEF Ran
  <2>2. ASSUME k - 1 \in v PROVE p[k] \in Write(r, p, v)
    <3>1. p[(k - 1) + 1] \in {p[j + 1] : j \in v} BY <2>2
    <3>2. (k - 1) + 1 = k OBVIOUS
    <3> QED BY <3>1, <3>2 DEF Write
  <2>3. ASSUME p[k] \in Write(r, p, v) PROVE k - 1 \in v
    <3>1. PICK j \in v : p[k] = p[j + 1] BY <2>3, <2>1 DEF Write
    <3>2. j + 1 \in 1..Len(p) OBVIOUS
    <3>3. k = j + 1 BY <3>1, <3>2 DEF Inj
    <3> QED BY <3>3
  <2> QED BY <2>2, <2>3
<1>2. \A x \in v : x + 1 \in 1..Len(p) /\ (x + 1) - 1 = x OBVIOUS
<1> QED BY <1>1, <1>2 DEF Read

(* C11: a write through a window below N keeps the register below N *)
THEOREM UpperBitsStayZero ==
  ASSUME NEW N \in Nat, NEW r \in SUBSET (0..(N - 1)), NEW p \in Seq(0..(N - 1)), NEW v \in SUBSET (0..(Len(p) - 1))
  PROVE  Write(r, p, v) \subseteq 0..(N - 1)
<1>1. \A k \in v : k + 1 \in 1..Len(p) OBVIOUS
<1>2. \A k \in v : p[k + 1] \in 0..(N - 1) BY <1>1
<1> QED BY <1>2 DEF Write

(* C12: the second write wins on the bits it covers, the first survives elsewhere *)
THEOREM LastWriteWinsStep ==
  ASSUME NEW r, NEW p \in Seq(Nat), NEW q \in Seq(Nat),
         NEW v \in SUBSET (0..(Len(p) - 1)), NEW w \in SUBSET (0..(Len(q) - 1))
  PROVE  /\ Write(Write(r, p, v), q, w) \ Ran(q) = Write(r, p, v) \ Ran(q)
         /\ Write(Write(r, p, v), q, w) \cap Ran(q) = {q[k + 1] : k \in w}
<1>1. \A k \in w : q[k + 1] \in Ran(q) BY DEF Ran
<1> QED BY <1>1 DEF Write

(* C12: writes through disjoint windows commute *)
THEOREM DisjointCommute ==
  ASSUME NEW r, NEW p \in Seq(Nat), NEW q \in Seq(Nat), Ran(p) \cap Ran(q) = {},
         NEW v \in SUBSET (0..(Len(p) - 1)), NEW w \in SUBSET (0..(Len(q) - 1))
  PROVE  Write(Write(r, p, v), q, w) = Write(Write(r, q, w), p, v)
<1>1. \A k \in v : p[k + 1] \in Ran(p) BY DEF Ran
<1>2. \A k \in w : q[k + 1] \in Ran(q) BY DEF Ran
<1> QED BY <1>1, <1>2 DEF Write
(* C02/C06: writing back what was read changes nothing *)
THEOREM WriteBackIdentity ==
  ASSUME NEW r, NEW p \in Seq(Nat)
  PROVE  Write(r, p, Read(r, p)) = r
<1>1. ASSUME NEW x \in r, x \in Ran(p) PROVE x \in {p[k + 1] : k \in Read(r, p)}
  <2>1. PICK k \in 1..Len(p) : p[k] = x BY <1>1 DEF Ran
  <2>2. k - 1 \in Read(r, p) BY <2>1, <1>1 DEF Read
  <2>3. (k - 1) + 1 = k OBVIOUS
  <2> QED BY <2>1, <2>2, <2>3
<1>2. ASSUME NEW j \in Read(r, p) PROVE p[j + 1] \in r
  <2>1. PICK k \in 1..Len(p) : p[k] \in r /\ j = k - 1 BY <1>2 DEF Read
  <2>2. j + 1 = k BY <2>1
  <2> QED BY <2>1, <2>2
<1> QED BY <1>1, <1>2 DEF Write

(* C02/C12: repeating a write changes nothing *)
THEOREM WriteIdempotent ==
  ASSUME NEW r, NEW p \in Seq(Nat), NEW v \in SUBSET (0..(Len(p) - 1))
  PROVE  Write(Write(r, p, v), p, v) = Write(r, p, v)
<1>1. \A k \in v : p[k + 1] \in Ran(p) BY DEF Ran
<1> QED BY <1>1 DEF Write

(* C05: sign extension to the W-bit return type and truncation back to the n-bit field *)
SExt(v, n, W) == v \cup (IF (n - 1) \in v THEN n..(W - 1) ELSE {})
Trunc(v, n) == v \cap (0..(n - 1))
THEOREM SignExtendTruncate ==
  ASSUME NEW n \in Nat, NEW W \in Nat, n >= 1, n <= W, NEW v \in SUBSET (0..(n - 1))
  PROVE  /\ Trunc(SExt(v, n, W), n) = v
         /\ SExt(v, n, W) \subseteq 0..(W - 1)
         /\ \A k \in n..(W - 1) : (k \in SExt(v, n, W)) <=> ((n - 1) \in v)
BY DEF SExt, Trunc

(* C03: element windows of an array field with stride >= width *)
Elem(lo, w, s, i) == [k \in 1..w |-> lo + i * s + (k - 1)]
THEOREM ElemInj ==
  ASSUME NEW lo \in Nat, NEW w \in Nat, NEW s \in Nat, NEW i \in Nat
  PROVE  Inj(Elem(lo, w, s, i)) /\ Elem(lo, w, s, i) \in Seq(Nat) /\ Len(Elem(lo, w, s, i)) = w
<1>1. Elem(lo, w, s, i) \in Seq(Nat) /\ Len(Elem(lo, w, s, i)) = w
  <2>1. i * s \in Nat OBVIOUS
  <2> QED BY <2>1 DEF Elem
<1>2. Inj(Elem(lo, w, s, i))
  <2>1. i * s \in Nat OBVIOUS
  <2> QED BY <1>1, <2>1 DEF Inj, Elem
<1> QED BY <1>1, <1>2

THEOREM ElemDisjoint ==
  ASSUME NEW lo \in Nat, NEW w \in Nat, NEW s \in Nat, s >= w, NEW i \in Nat, NEW j \in Nat, i < j
  PROVE  Ran(Elem(lo, w, s, i)) \cap Ran(Elem(lo, w, s, j)) = {}
<1>1. j * s >= i * s + s
  <2>1. j >= i + 1 OBVIOUS
  <2>2. j * s >= (i + 1) * s BY <2>1
  <2>3. (i + 1) * s = i * s + s OBVIOUS
  <2> QED BY <2>2, <2>3
<1>2. i * s \in Nat /\ j * s \in Nat OBVIOUS
<1>3. Len(Elem(lo, w, s, i)) = w /\ Len(Elem(lo, w, s, j)) = w BY DEF Elem
<1>4. ASSUME NEW a \in 1..w, NEW b \in 1..w PROVE lo + i * s + (a - 1) # lo + j * s + (b - 1)
  BY <1>1, <1>2
<1> QED BY <1>3, <1>4 DEF Ran, Elem
(* C04: a non-contiguous field is the concatenation of its ranges, first range = least significant *)
Cat(p, q) == [k \in 1..(Len(p) + Len(q)) |-> IF k <= Len(p) THEN p[k] ELSE q[k - Len(p)]]
Up(v, n) == {k + n : k \in v}
Lo(v, n) == {k \in v : k < n}
Hi(v, n) == {k - n : k \in {k \in v : k >= n}}

LEMMA CatShape ==
  ASSUME NEW p \in Seq(Nat), NEW q \in Seq(Nat)
  PROVE  /\ Cat(p, q) \in Seq(Nat)
         /\ Len(Cat(p, q)) = Len(p) + Len(q)
         /\ \A k \in 1..Len(p) : Cat(p, q)[k] = p[k]
         /\ \A k \in 1..Len(q) : Cat(p, q)[Len(p) + k] = q[k]
<1>1. Len(p) \in Nat /\ Len(q) \in Nat OBVIOUS
<1>2. \A k \in 1..(Len(p) + Len(q)) : (IF k <= Len(p) THEN p[k] ELSE q[k - Len(p)]) \in Nat
  BY <1>1
<1>3. Cat(p, q) \in Seq(Nat) /\ Len(Cat(p, q)) = Len(p) + Len(q) BY <1>1, <1>2 DEF Cat
<1> QED BY <1>1, <1>3 DEF Cat

THEOREM GatherConcat ==
  ASSUME NEW r, NEW p \in Seq(Nat), NEW q \in Seq(Nat)
  PROVE  Read(r, Cat(p, q)) = Read(r, p) \cup Up(Read(r, q), Len(p))
<1> DEFINE c == Cat(p, q)
<1>0. Len(p) \in Nat /\ Len(q) \in Nat OBVIOUS
<1>1. /\ Len(c) = Len(p) + Len(q)
      /\ \A k \in 1..Len(p) : c[k] = p[k]
      /\ \A k \in 1..Len(q) : c[Len(p) + k] = q[k]
  BY CatShape
<1>2. ASSUME NEW x \in Read(r, c) PROVE x \in Read(r, p) \cup Up(Read(r, q), Len(p))
  <2>1. PICK k \in 1..Len(c) : c[k] \in r /\ x = k - 1 BY <1>2 DEF Read
  <2>2. CASE k <= Len(p)
    <3>1. k \in 1..Len(p) /\ p[k] \in r BY <2>1, <2>2, <1>1
    <3> QED BY <3>1, <2>1 DEF Read
  <2>3. CASE k > Len(p)
    <3>1. k - Len(p) \in 1..Len(q) BY <2>1, <2>3, <1>0, <1>1
    <3>2. c[Len(p) + (k - Len(p))] = q[k - Len(p)] BY <3>1, <1>1
    <3>3. Len(p) + (k - Len(p)) = k BY <1>0
    <3>4. q[k - Len(p)] \in r BY <3>2, <3>3, <2>1
    <3>5. (k - Len(p)) - 1 \in Read(r, q) BY <3>1, <3>4 DEF Read
    <3>6. x = ((k - Len(p)) - 1) + Len(p) BY <2>1, <1>0
    <3> QED BY <3>5, <3>6 DEF Up
  <2> QED BY <2>2, <2>3, <1>0
<1>3. ASSUME NEW x \in Read(r, p) PROVE x \in Read(r, c)
  <2>1. PICK k \in 1..Len(p) : p[k] \in r /\ x = k - 1 BY <1>3 DEF Read
  <2>2. k \in 1..Len(c) /\ c[k] \in r BY <2>1, <1>0, <1>1
  <2> QED BY <2>1, <2>2 DEF Read
<1>4. ASSUME NEW x \in Up(Read(r, q), Len(p)) PROVE x \in Read(r, c)
  <2>1. PICK y \in Read(r, q) : x = y + Len(p) BY <1>4 DEF Up
  <2>2. PICK k \in 1..Len(q) : q[k] \in r /\ y = k - 1 BY <2>1 DEF Read
  <2>3. Len(p) + k \in 1..Len(c) /\ c[Len(p) + k] \in r BY <2>2, <1>0, <1>1
  <2>4. x = (Len(p) + k) - 1 BY <2>1, <2>2, <1>0
  <2> QED BY <2>3, <2>4 DEF Read
<1> QED BY <1>2, <1>3, <1>4

THEOREM ScatterConcat ==
  ASSUME NEW r, NEW p \in Seq(Nat), NEW q \in Seq(Nat), Ran(p) \cap Ran(q) = {},
         NEW v \in SUBSET (0..(Len(p) + Len(q) - 1))
  PROVE  Write(r, Cat(p, q), v) = Write(Write(r, p, Lo(v, Len(p))), q, Hi(v, Len(p)))
<1> DEFINE c == Cat(p, q)
<1>0. Len(p) \in Nat /\ Len(q) \in Nat OBVIOUS
<1>1. /\ Len(c) = Len(p) + Len(q)
      /\ \A k \in 1..Len(p) : c[k] = p[k]
      /\ \A k \in 1..Len(q) : c[Len(p) + k] = q[k]
  BY CatShape
<1>2. Ran(c) = Ran(p) \cup Ran(q)
  <2>1. ASSUME NEW k \in 1..Len(c) PROVE c[k] \in Ran(p) \cup Ran(q)
    <3>1. CASE k <= Len(p) BY <3>1, <1>1, <1>0 DEF Ran
    <3>2. CASE k > Len(p)
      <4>1. k - Len(p) \in 1..Len(q) BY <3>2, <1>0, <1>1
      <4>2. Len(p) + (k - Len(p)) = k BY <1>0
      <4>3. c[k] = q[k - Len(p)] BY <4>1, <4>2, <1>1
      <4> QED BY <4>1, <4>3 DEF Ran
    <3> QED BY <3>1, <3>2, <1>0
  <2>2. ASSUME NEW k \in 1..Len(p) PROVE p[k] \in Ran(c)
    <3>1. k \in 1..Len(c) /\ c[k] = p[k] BY <1>0, <1>1
    <3> QED BY <3>1 DEF Ran
  <2>3. ASSUME NEW k \in 1..Len(q) PROVE q[k] \in Ran(c)
    <3>1. Len(p) + k \in 1..Len(c) /\ c[Len(p) + k] = q[k] BY <1>0, <1>1
    <3> QED BY <3>1 DEF Ran
  <2> QED BY <2>1, <2>2, <2>3 DEF Ran
<1>3. {c[k + 1] : k \in v} = {p[k + 1] : k \in Lo(v, Len(p))} \cup {q[k + 1] : k \in Hi(v, Len(p))}
  <2>1. ASSUME NEW k \in v, k < Len(p) PROVE c[k + 1] = p[k + 1] /\ k \in Lo(v, Len(p))
    BY <2>1, <1>0, <1>1 DEF Lo
  <2>2. ASSUME NEW k \in v, k >= Len(p) PROVE c[k + 1] = q[(k - Len(p)) + 1] /\ (k - Len(p)) \in Hi(v, Len(p))
    <3>1. (k - Len(p)) + 1 \in 1..Len(q) BY <2>2, <1>0
    <3>2. Len(p) + ((k - Len(p)) + 1) = k + 1 BY <1>0
    <3>3. c[k + 1] = q[(k - Len(p)) + 1] BY <3>1, <3>2, <1>1
    <3> QED BY <3>3, <2>2 DEF Hi
  <2>3. ASSUME NEW k \in Lo(v, Len(p)) PROVE k \in v /\ c[k + 1] = p[k + 1]
    BY <2>3, <1>0, <1>1 DEF Lo
  <2>4. ASSUME NEW j \in Hi(v, Len(p)) PROVE \E k \in v : c[k + 1] = q[j + 1]
    <3>1. PICK k \in v : k >= Len(p) /\ j = k - Len(p) BY <2>4 DEF Hi
    <3> QED BY <3>1, <2>2
  <2>5. \A k \in v : k < Len(p) \/ k >= Len(p) BY <1>0
  <2> QED BY <2>1, <2>2, <2>3, <2>4, <2>5
<1>4. \A k \in Lo(v, Len(p)) : p[k + 1] \in Ran(p) BY <1>0 DEF Lo, Ran
<1>5. \A j \in Hi(v, Len(p)) : q[j + 1] \in Ran(q)
  <2>1. ASSUME NEW j \in Hi(v, Len(p)) PROVE j + 1 \in 1..Len(q) BY <1>0 DEF Hi
  <2> QED BY <2>1 DEF Ran
<1> QED BY <1>2, <1>3, <1>4, <1>5 DEF Write

=============================================================================
