--------------------------- MODULE RegisterProofs ---------------------------
(***************************************************************************)
(* TLAPS proofs of the algebraic core of Register.tla for UNBOUNDED width   *)
(* and ARBITRARY position sequences, so that the small constants of the TLC *)
(* models are not the weak link.  The definitions are copied verbatim from  *)
(* Decl.tla (Read, Write, Ran, Inj); `tlapm RegisterProofs.tla` checks them.*)
(***************************************************************************)
EXTENDS Naturals, Sequences, TLAPS

Ran(p) == {p[k] : k \in 1..Len(p)}
Inj(p) == \A i, j \in 1..Len(p) : p[i] = p[j] => i = j
Read(r, p) == {k - 1 : k \in {k \in 1..Len(p) : p[k] \in r}}
Write(r, p, v) == (r \ Ran(p)) \cup {p[k + 1] : k \in v}

(* C02/C03/C04/C05: a write changes no bit outside the window *)
THEOREM Frame ==
  ASSUME NEW r, NEW p \in Seq(Nat), NEW v \in SUBSET (0..(Len(p) - 1))
  PROVE  Write(r, p, v) \ Ran(p) = r \ Ran(p)
<1>1. \A k \in v : p[k + 1] \in Ran(p)
  BY DEF Ran
<1> QED BY <1>1 DEF Write

(* C02/C04: reading back what was written through an injective window *)
THEOREM RoundTrip ==
  ASSUME NEW r, NEW p \in Seq(Nat), Inj(p), NEW v \in SUBSET (0..(Len(p) - 1))
  PROVE  Read(Write(r, p, v), p) = v
<1>1. ASSUME NEW k \in 1..Len(p) PROVE (p[k] \in Write(r, p, v)) <=> (k - 1 \in v)
  <2>1. p[k] \in Ran(p) BY DEF Ran
  <2>2. ASSUME k - 1 \in v PROVE p[k] \in Write(r, p, v)
    <3>1. p[(k - 1) + 1] \in {p[j + 1] : j \in v} BY <2>2
    <3>2. (k - 1) + 1 = k OBVIOUS
    <3> QED BY <3>1, <3>2 DEF Write
  <2>3. ASSUME p[k] \in Write(r, p, v) PROVE k - 1 \in v
    <3>1. PICK j \in v : p[k] = p[j + 1] BY <2>3, <2>1 DEF Write
    <3>2. j + 1 \in 1..Len(p) OBVIOUS
    <3>3. k = j + 1 BY <3>1, <3>2 DEF Inj
    <3> QED BY <3>3
  <2> QED BY <2>2, <2>3
<1>2. \A x \in v : x + 1 \in 1..Len(p) /\ (x + 1) - 1 = x OBVIOUS
<1> QED BY <1>1, <1>2 DEF Read

(* C11: a write through a window below N keeps the register below N *)
THEOREM UpperBitsStayZero ==
  ASSUME NEW N \in Nat, NEW r \in SUBSET (0..(N - 1)), NEW p \in Seq(0..(N - 1)), NEW v \in SUBSET (0..(Len(p) - 1))
  PROVE  Write(r, p, v) \subseteq 0..(N - 1)
<1>1. \A k \in v : k + 1 \in 1..Len(p) OBVIOUS
<1>2. \A k \in v : p[k + 1] \in 0..(N - 1) BY <1>1
<1> QED BY <1>2 DEF Write

(* C12: the second write wins on the bits it covers, the first survives elsewhere *)
THEOREM LastWriteWinsStep ==
  ASSUME NEW r, NEW p \in Seq(Nat), NEW q \in Seq(Nat),
         NEW v \in SUBSET (0..(Len(p) - 1)), NEW w \in SUBSET (0..(Len(q) - 1))
  PROVE  /\ Write(Write(r, p, v), q, w) \ Ran(q) = Write(r, p, v) \ Ran(q)
         /\ Write(Write(r, p, v), q, w) \cap Ran(q) = {q[k + 1] : k \in w}
<1>1. \A k \in w : q[k + 1] \in Ran(q) BY DEF Ran
<1> QED BY <1>1 DEF Write

(* C12: writes through disjoint windows commute *)
THEOREM DisjointCommute ==
  ASSUME NEW r, NEW p \in Seq(Nat), NEW q \in Seq(Nat), Ran(p) \cap Ran(q) = {},
         NEW v \in SUBSET (0..(Len(p) - 1)), NEW w \in SUBSET (0..(Len(q) - 1))
  PROVE  Write(Write(r, p, v), q, w) = Write(Write(r, q, w), p, v)
<1>1. \A k \in v : p[k + 1] \in Ran(p) BY DEF Ran
<1>2. \A k \in w : q[k + 1] \in Ran(q) BY DEF Ran
<1> QED BY <1>1, <1>2 DEF Write
=============================================================================
