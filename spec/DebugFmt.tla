------------------------------ MODULE DebugFmt ------------------------------
(* C19: the text printed by the `debug` option, composed from the Debug       *)
(* renderings of the getters' values (logged as lists of lines) by the        *)
(* standard struct format: `Name { f1: t1, f2: t2 }` / pretty form with the   *)
(* PadAdapter rule (four spaces, trailing comma after each field).            *)
EXTENDS Naturals, Sequences

RECURSIVE JoinWith(_, _)
JoinWith(ss, sep) == IF ss = <<>> THEN ""
                     ELSE IF Len(ss) = 1 THEN ss[1]
                     ELSE ss[1] \o sep \o JoinWith(Tail(ss), sep)
RECURSIVE CatSeqs(_)
CatSeqs(ss) == IF ss = <<>> THEN <<>> ELSE Head(ss) \o CatSeqs(Tail(ss))

(* one field of the pretty form: "    name: first", "    more"..., last line + "," *)
PrettyField(fname, part) ==
  LET n == Len(part)
      raw == [k \in 1..n |-> IF k = 1 THEN "    " \o fname \o ": " \o part[1] ELSE "    " \o part[k]]
  IN  [k \in 1..n |-> IF k = n THEN raw[k] \o "," ELSE raw[k]]

(* name: struct name; fnames: field names as written; parts[k]: lines of the getter's Debug text *)
ComposeLines(name, fnames, parts, alt) ==
  IF Len(fnames) = 0 THEN <<name>>
  ELSE IF ~alt
       THEN << name \o " { "
               \o JoinWith([k \in 1..Len(fnames) |-> fnames[k] \o ": " \o JoinWith(parts[k], "\n")], ", ")
               \o " }" >>
       ELSE <<name \o " {">> \o CatSeqs([k \in 1..Len(fnames) |-> PrettyField(fnames[k], parts[k])]) \o <<"}">>
=============================================================================
