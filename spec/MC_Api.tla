------------------------------- MODULE MC_Api -------------------------------
(* Design-level sanity of Decl!Api / AbsentApi (C17) on the model declarations: every accessor name of every field is *)
(* either required or forbidden, never both; read-only fields have nothing that can modify them, write-only nothing   *)
(* that can read them.                                                                                                *)
EXTENDS Decl, ModelDecls, TLC
VARIABLE d
Init == d \in {AllModelDecls[k] : k \in 1..Len(AllModelDecls)}
Next == UNCHANGED d
ApiNames(x) == {a.m : a \in Api(x)}
Partition == \A j \in 1..Len(d.fields) : \A k \in {"get:", "with:", "set:"} :
                LET nm == k \o d.fields[j].name IN (nm \in ApiNames(d)) # (nm \in AbsentApi(d))
ReadOnlyUnmodifiable == \A j \in 1..Len(d.fields) : d.fields[j].access = "r" =>
                           {"with:" \o d.fields[j].name, "set:" \o d.fields[j].name, "step:" \o d.fields[j].name} \subseteq AbsentApi(d)
WriteOnlyUnreadable == \A j \in 1..Len(d.fields) : d.fields[j].access = "w" => ("get:" \o d.fields[j].name) \in AbsentApi(d)
NoneHasNothing == \A j \in 1..Len(d.fields) : d.fields[j].access = "none" =>
                     \A k \in {"get:", "with:", "set:", "step:"} : (k \o d.fields[j].name) \in AbsentApi(d)
SetNeverConst == \A a \in Api(d) : (a.m \in {"set:" \o d.fields[j].name : j \in 1..Len(d.fields)}) => ~a.const
=============================================================================
