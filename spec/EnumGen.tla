------------------------------ MODULE EnumGen ------------------------------
(***************************************************************************)
(* C07/C10: the bitenum declaration space.  TLC enumerates, exhaustively    *)
(* for small N, every non-empty set of discriminants drawn from 0..2^N (one *)
(* value out of range) in three declaration orders under every `exhaustive` *)
(* setting, plus families with missing / non-literal discriminants,         *)
(* cfg-gated variants, and storage-class boundaries.                        *)
(***************************************************************************)
EXTENDS BitEnum, SequencesExt, Json, IOUtils, TLC

Level == atoi(IOEnv.SPACE_LEVEL)
MaxN  == IF Level >= 2 THEN 3 ELSE 2
Exhs  == {"true", "false", "conditional", "omitted"}

BitsOfN(x, w) == {k \in 0..w : (x \div 2^k) % 2 = 1}          \* w+1 bits: 2^w is representable (out of range)
DSeq(x, w) == SetToSeq(BitsOfN(x, w))
V(k, d, cfg, form) == [name |-> "V" \o ToString(k), d |-> d, cfg |-> cfg, form |-> form, doc |-> FALSE]
AscSeq(S) == SortSeq(SetToSeq(S), <)
Order(S, ord) == LET a == AscSeq(S) n == Len(a) IN
                 CASE ord = "asc"  -> a
                   [] ord = "desc" -> [k \in 1..n |-> a[n + 1 - k]]
                   [] ord = "rot"  -> [k \in 1..n |-> a[((k + (n \div 2) - 1) % n) + 1]]
Plain(n, exh, S, ord) ==
  [name |-> "E", n |-> n, exh |-> exh,
   variants |-> LET o == Order(S, ord) IN [k \in 1..Len(o) |-> V(o[k], DSeq(o[k], n), "none", "lit")]]

VARIABLES e, done
Init == e = [name |-> "E", n |-> 0, exh |-> "false", variants |-> <<>>] /\ done = FALSE

Small == /\ ~done
         /\ \E n \in 1..MaxN : \E exh \in Exhs : \E S \in (SUBSET (0..(2^n))) \ {{}} : \E ord \in {"asc", "desc", "rot"} :
              /\ (ord # "asc" => Cardinality(S) >= 3)
              /\ e' = Plain(n, exh, S, ord)
         /\ done' = TRUE

(* a variant without discriminant / with a non-literal one *)
Forms == /\ ~done
         /\ \/ \E exh \in Exhs : \E form \in {"missing", "expr"} : \E pos \in 1..3 : \E size \in {3, 4} :
                 e' = [Plain(2, exh, 0..(size - 1), "asc") EXCEPT !.variants[pos].form = form]
            (* literal discriminants in other spellings: hex, binary, octal, underscores (valid; the macro must read their value) *)
            \/ \E exh \in Exhs : \E form \in LitForms \ {"lit"} : \E size \in {3, 4} :
                 e' = [Plain(2, exh, 0..(size - 1), "desc") EXCEPT !.variants[1].form = form, !.variants[size].form = form]
            \/ \E exh \in {"false", "true"} : \E form \in LitForms \ {"lit"} : \E n \in {4, 8, 12} : \E top \in {2^n - 1, 2^n} :
                 e' = [name |-> "E", n |-> n, exh |-> exh, variants |->
                         <<V(0, <<>>, "none", form), V(1, DSeq(top, n + 1), "none", form), V(2, DSeq(10, n + 1), "none", "lit")>>]
            (* type-suffixed literals (suffix = the storage type, the enum carries the matching #[repr]): the VALUE is the digits
               before the suffix, also when the last digits happen to be characters of the suffix *)
            \/ \E exh \in {"false", "omitted"} : \E n \in {5, 8, 12} :
                 e' = [name |-> "E", n |-> n, exh |-> exh, variants |->
                         [k \in 1..8 |-> LET x == <<1, 16, 6, 21, 10, 8, 18, 28>>[k] IN V(k, DSeq(x, n + 1), "none", IF x = 10 THEN "lit" ELSE "suf")]]
            \/ \E exh \in {"false", "conditional"} : \E n \in {5, 8} : \E ord \in {1, 2} :
                 e' = [name |-> "E", n |-> n, exh |-> exh, variants |->
                         [k \in 1..4 |-> LET x == IF ord = 1 THEN <<18, 28, 10, 3>>[k] ELSE <<3, 28, 18, 10>>[k] IN
                                         V(k, DSeq(x, n + 1), "none", IF x = 10 THEN "lit" ELSE "suf")]]
         /\ done' = TRUE

(* cfg-gated variants: a gated extra value, or two variants sharing a value under exclusive gates *)
GatedVariants == /\ ~done
         /\ \E exh \in Exhs : \E shape \in 1..14 :
              LET base == Plain(2, exh, {0, 1, 2}, "asc").variants IN
              e' = [name |-> "E", n |-> 2, exh |-> exh, variants |->
                     CASE shape = 1 -> Append(base, V(3, DSeq(3, 2), "on", "lit"))
                       [] shape = 2 -> Append(base, V(3, DSeq(3, 2), "off", "lit"))
                       [] shape = 3 -> <<V(9, DSeq(1, 2), "off", "lit")>> \o [k \in 1..3 |-> IF k = 2 THEN [base[k] EXCEPT !.cfg = "on"] ELSE base[k]]
                       [] shape = 4 -> [k \in 1..3 |-> IF k = 2 THEN [base[k] EXCEPT !.cfg = "on"] ELSE base[k]] \o <<V(9, DSeq(1, 2), "off", "lit")>>
                       [] shape = 5 -> base \o <<V(3, DSeq(3, 2), "on", "lit"), V(4, DSeq(3, 2), "off", "lit"), V(5, DSeq(0, 2), "off", "lit")>>
                       [] shape = 6 -> base \o <<V(3, DSeq(3, 2), "off", "lit"), V(4, DSeq(4, 2), "off", "lit")>>
                       (* two #[cfg] attributes on one variant: compiled in only if BOTH hold *)
                       [] shape = 7 -> base \o <<V(3, DSeq(3, 2), "onoff", "lit"), V(4, DSeq(3, 2), "on", "lit")>>
                       [] shape = 8 -> <<V(9, DSeq(1, 2), "offon", "lit")>> \o [k \in 1..3 |-> IF k = 2 THEN [base[k] EXCEPT !.cfg = "on"] ELSE base[k]]
                       (* ONE variant name declared twice under complementary gates with DIFFERENT values: live one first / last *)
                       [] shape = 9 -> <<base[1], V(1, DSeq(1, 2), "on", "lit"), V(1, DSeq(2, 2), "off", "lit")>>
                       [] shape = 10 -> <<base[1], V(1, DSeq(2, 2), "off", "lit"), V(1, DSeq(1, 2), "on", "lit")>>
                       [] shape = 11 -> <<base[1], V(1, DSeq(1, 2), "on", "lit"), V(1, DSeq(2, 2), "off", "lit"),
                                          V(2, DSeq(2, 2), "on", "lit"), V(2, DSeq(1, 2), "off", "lit"), V(3, DSeq(3, 2), "none", "lit")>>
                       [] shape = 12 -> <<V(3, DSeq(3, 2), "on", "lit"), V(3, DSeq(0, 2), "off", "lit"), V(0, DSeq(0, 2), "on", "lit"),
                                          V(0, DSeq(3, 2), "off", "lit"), base[2], base[3]>>
                       (* variants named like prelude items the generated code mentions, or like the enum itself *)
                       [] shape = 13 -> [k \in 1..3 |-> [base[k] EXCEPT !.name = <<"Ok", "Err", "E">>[k]]]
                       [] shape = 14 -> [k \in 1..4 |-> [V(k - 1, DSeq(k - 1, 2), "none", "lit") EXCEPT !.name = <<"None", "Some", "Result", "Default">>[k]]]]
         /\ done' = TRUE

(* the #[cfg] gate is not the variant's first attribute (a doc comment precedes it) *)
DocGated == /\ ~done
            /\ \E exh \in Exhs : \E g \in {"on", "off"} : \E size \in {3, 4} :
                 LET base == Plain(2, exh, 0..(size - 1), "asc").variants IN
                 e' = [name |-> "E", n |-> 2, exh |-> exh,
                       variants |-> [k \in 1..size |-> IF k = size THEN [base[k] EXCEPT !.cfg = g, !.doc = TRUE] ELSE base[k]]]
            /\ done' = TRUE

(* storage-class boundaries: discriminants 0, 1, 2^n - 1 (all ones), 2^n (bit n), top bit *)
Ones(n) == [k \in 1..n |-> k - 1]
Wide == /\ ~done
        /\ \E n \in {4, 7, 8, 9, 15, 16, 17, 31, 32, 33, 63, 64} : \E exh \in {"true", "false", "omitted"} : \E shape \in 1..4 :
             e' = [name |-> "E", n |-> n, exh |-> exh, variants |->
                    CASE shape = 1 -> <<V(0, <<>>, "none", "lit"), V(1, Ones(n), "none", "lit")>>
                      [] shape = 2 -> <<V(0, <<>>, "none", "lit"), V(1, <<n>>, "none", "lit")>>          \* 2^n: out of range
                      [] shape = 3 -> <<V(0, <<n - 1>>, "none", "lit"), V(1, <<0>>, "none", "lit"), V(2, <<>>, "none", "lit")>>
                      [] shape = 4 -> <<V(0, Ones(n), "none", "lit"), V(1, <<0, n>>, "none", "lit")>>]   \* 2^n + 1
        /\ done' = TRUE

(* variant counts 2^n - 1, 2^n, 2^n + 1 for mid-size n *)
Counts == /\ ~done /\ Level >= 1
          /\ \E n \in (IF Level >= 2 THEN {4, 5, 8} ELSE {4}) : \E exh \in Exhs : \E c \in {2^n - 1, 2^n, 2^n + 1} :
               e' = Plain(n, exh, 0..(c - 1), "asc")
          /\ done' = TRUE

(* unsupported storage widths *)
BadWidth == /\ ~done
            /\ \E n \in {0, 65, 128} : e' = [name |-> "E", n |-> n, exh |-> "false", variants |-> <<V(0, <<>>, "none", "lit")>>]
            /\ done' = TRUE

Next == Small \/ Forms \/ GatedVariants \/ DocGated \/ Wide \/ Counts \/ BadWidth

(* design-level theorems about the rule, checked on every enumerated declaration *)
Theorems == (done /\ EnumValid(e) /\ e.n <= 8) => (EnumInverse(e) /\ ExhaustiveTotal(e) /\ ErrCarriesRaw(e))
Emit == done => PrintT(<<"ENUM", ToJson(e)>>)
=============================================================================
