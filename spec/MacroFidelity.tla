---------------------------- MODULE MacroFidelity ----------------------------
(* Fidelity report: how well does the implementation-shaped MacroModel predict the REAL verdicts recorded by the C09/C10/C14 *)
(* checks?  Disagreements are printed as MODEL-DRIFT warnings and NEVER fail a check: a refactoring that keeps the          *)
(* properties must not alarm; a drift only says that MacroModel.tla should be brought up to date with the code.            *)
EXTENDS MacroModel, Json, IOUtils

Rec   == ndJsonDeserialize(IOEnv.TRACEFILE)
Decls == JsonDeserialize(IOEnv.DECLFILE)
D(e)  == Decls[e.decl + 1]
Predicted(e) ==
  CASE e.ev = "verdict"  -> ParseAccepts(D(e), e.macro_profile)
    [] e.ev = "everdict" -> EnumAccepts(D(e), "dev")
    [] e.ev = "builder"  -> BuilderOfferedImpl(D(e))
    [] OTHER -> TRUE
Observed(e) == IF e.ev = "builder" THEN e.compiles ELSE e.accepted
(* duplicate-bit range lists are accepted by parse_field but may still fail in rustc's constant evaluation: not predicted *)
Judged == {k \in 1..Len(Rec) : /\ Rec[k].ev \in {"verdict", "everdict", "builder"}
                               /\ (Rec[k].ev = "verdict" => \A j \in 1..Len(D(Rec[k]).fields) : ~DupBits(D(Rec[k]).fields[j]))}
Drift  == {k \in Judged : Predicted(Rec[k]) # Observed(Rec[k])}
ASSUME PrintT(<<"FIDELITY", Cardinality(Judged), Cardinality(Drift)>>)
ASSUME \A k \in Drift : PrintT(<<"MODEL-DRIFT", k, ToJson(Rec[k])>>)
VARIABLE x
Init == x = 0
Next == x' = x
=============================================================================
