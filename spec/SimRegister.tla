---------------------------- MODULE SimRegister ----------------------------
(***************************************************************************)
(* Specification -> implementation: behaviours of Register.tla generated    *)
(* by TLC in simulation mode (`-simulate num=.. -depth .. -seed ..`), with  *)
(* the abstract state after every action recorded in a history variable and *)
(* printed as JSON.  The harness replays each behaviour on the real         *)
(* generated object and compares raw_value(), the storage integer and the   *)
(* observation after EVERY step with what the specification says.          *)
(* Values are drawn bit by bit (RandomElement), so wide fields get random   *)
(* patterns as well as the extreme ones.                                    *)
(***************************************************************************)
EXTENDS Register, Json, IOUtils, TLC, Randomization

Decls == JsonDeserialize(IOEnv.DECLFILE)
Depth == atoi(IOEnv.SIM_DEPTH)
VARIABLE hist
svars == <<decl, obj, shadow, out, hist>>

RandBits(w) == CHOOSE r \in {IF RandomElement(1..6) = 1 THEN {}
                                ELSE IF RandomElement(1..5) = 1 THEN 0..(w - 1)
                                ELSE {b \in 0..(w - 1) : RandomElement({TRUE, FALSE})}} : TRUE
RandVal(f) == IF f.kind \in {"enum", "optenum"}
              THEN SeqToSet(Enum(f).variants[RandomElement(1..Len(Enum(f).variants))].d)
              ELSE RandBits(Width(f))

Step(op, s, t, j, i, v) == [op |-> op, s |-> s, t |-> t, j |-> j, i |-> i, v |-> v, a |-> obj'["a"], b |-> obj'["b"], out |-> out']
Log(op, s, t, j, i, v) == hist' = Append(hist, Step(op, s, t, j, i, v))

Init == /\ decl \in {Decls[k] : k \in 1..Len(Decls)}
        /\ obj = [s \in Slot |-> {}]
        /\ shadow = [s \in Slot |-> [b \in 0..(decl.n - 1) |-> FALSE]]
        /\ out = Obs("init", {})
        /\ hist = <<>>

(* `\E x \in {random expression}` evaluates the random draw exactly once (a LET would re-draw at every use) *)
SNew    == \E s \in Slot : \E r \in {RandBits(N)} : New(s, r) /\ Log("new", s, s, 0, 0, r)
SConst  == \E s \in Slot : (Default(s) /\ Log("default", s, s, 0, 0, {})) \/ (Zero(s) /\ Log("zero", s, s, 0, 0, {}))
SCopy   == \E s, t \in Slot : s # t /\ Copy(s, t) /\ Log("copy", s, t, 0, 0, {})
SRewrap == \E s, t \in Slot : Rewrap(s, t) /\ Log("rewrap", s, t, 0, 0, {})
SRaw    == \E s \in Slot : Raw(s) /\ Log("raw", s, s, 0, 0, {})
SGet    == \E s \in Slot : \E j \in Fields : \E i \in 0..(Count(F(j)) - 1) : Get(s, j, i) /\ Log("get", s, s, j, i, {})
SWith   == \E s, t \in Slot : \E j \in Fields : \E i \in 0..(Count(F(j)) - 1) :
             \E v \in {RandVal(F(j))} : With(s, t, j, i, v) /\ Log("with", s, t, j, i, v)
SSet    == \E s \in Slot : \E j \in Fields : \E i \in 0..(Count(F(j)) - 1) :
             \E v \in {RandVal(F(j))} : Set(s, j, i, v) /\ Log("set", s, s, j, i, v)
SOOB    == \E s \in Slot : \E j \in Fields : \E i \in Count(F(j))..(Count(F(j)) + 1) : \E w \in {"getoob", "withoob", "setoob"} :
             OOB(s, j, i) /\ Log(w, s, s, j, i, {})
Next == Len(hist) < Depth /\ (SNew \/ SConst \/ SCopy \/ SRewrap \/ SRaw \/ SGet \/ SWith \/ SWith \/ SSet \/ SOOB)

(* every invariant of the specification holds along the generated behaviours as well *)
Inv  == TypeOK /\ UpperBitsZero /\ LastWriteWins
Emit == Len(hist) = Depth => PrintT(<<"REPLAY", ToJson([decl |-> decl.id, steps |-> hist])>>)
=============================================================================
