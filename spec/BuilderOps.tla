----------------------------- MODULE BuilderOps -----------------------------
(* C13: what builder()...build() must produce.  args[k][i+1] is the value    *)
(* supplied for element i of the k-th writable field, in declaration order.  *)
EXTENDS Decl

RECURSIVE FoldElems(_, _, _, _)
FoldElems(r, f, vals, i) ==
  IF i >= Count(f) THEN r
  ELSE FoldElems(Write(r, Pos(f, i), vals[i + 1]), f, vals, i + 1)

RECURSIVE FoldFields(_, _, _, _)
FoldFields(r, d, args, k) ==
  IF k > Len(WritableIdx(d)) THEN r
  ELSE FoldFields(FoldElems(r, d.fields[WritableIdx(d)[k]], args[k], 0), d, args, k + 1)

(* start from DEFAULT, or from zero when no default is declared *)
BuildFold(d, args) == FoldFields(InitialValue(d), d, args, 1)
=============================================================================
