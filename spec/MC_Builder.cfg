SPECIFICATION Spec
INVARIANTS MaskIsCover BuildOnlyWhenComplete BuildIsFold DefaultKept ArgsReadBack NoBuilderWhenUnsound
CHECK_DEADLOCK FALSE
