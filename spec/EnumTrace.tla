------------------------------ MODULE EnumTrace ------------------------------
(***************************************************************************)
(* C07 (and the run-time half of C10): recorded calls of the REAL           *)
(* new_with_raw_value / raw_value of accepted bitenums, validated against   *)
(* BitEnum!FromRaw / ToRaw.  For N <= 16 the recorder walks ALL raw values; *)
(* stretches of Err(x) are run-length compressed (the recorder checked each *)
(* x of the run returned Err(x)); the spec checks that points and runs tile *)
(* 0..2^N-1 and that no run contains a discriminant.                        *)
(***************************************************************************)
EXTENDS BitEnum, Json, IOUtils, TLC

Rec   == ndJsonDeserialize(IOEnv.TRACEFILE)
Enums == JsonDeserialize(IOEnv.DECLFILE)

VARIABLES l, cur, nxt
Ev == Rec[l]
E  == Enums[cur]
S(x) == {x[k] : k \in 1..Len(x)}
RECURSIVE Val(_)
Val(r) == IF r = {} THEN 0 ELSE LET b == CHOOSE x \in r : TRUE IN 2^b + Val(r \ {b})

TInit == l = 1 /\ cur = 1 /\ nxt = 0
TReset == Ev.ev = "ereset" /\ cur' = Ev.enum + 1 /\ nxt' = 0

TFrom == /\ Ev.ev = "e_from"
         /\ LET x == S(Ev.x)  exp == FromRaw(E, x) IN
            /\ Ev.res.k = exp.k                                   \* never "panic", never "undefined"
            /\ (exp.k \in {"var", "ok"} => Ev.res.name = exp.name)
            /\ (exp.k = "err" => S(Ev.res.v) = x)                 \* Err carries the raw value
            /\ IF E.n <= 16 THEN Ev.lo = nxt /\ Val(x) = nxt /\ nxt' = nxt + 1 ELSE nxt' = nxt
         /\ UNCHANGED cur
TRun == /\ Ev.ev = "e_err_run"
        /\ E.n <= 16 /\ ~Exhaustive(E)
        /\ Ev.lo = nxt /\ Ev.hi >= Ev.lo
        /\ \A k \in Active(E) : Val(ESet(E.variants[k].d)) \notin Ev.lo..Ev.hi
        /\ nxt' = Ev.hi + 1 /\ UNCHANGED cur
TDone == Ev.ev = "e_done" /\ E.n <= 16 /\ nxt = 2^(E.n) /\ UNCHANGED <<cur, nxt>>
TTo == /\ Ev.ev = "e_to"
       /\ Ev.res.k = "raw"
       /\ \E k \in Active(E) : E.variants[k].name = Ev.res.name /\ S(Ev.x) = ToRaw(E, k)
       /\ UNCHANGED <<cur, nxt>>

TNext == l <= Len(Rec) /\ l' = l + 1 /\ (TReset \/ TFrom \/ TRun \/ TDone \/ TTo)
Track == TLCSet(1, [l |-> l, cur |-> cur, nxt |-> nxt])
Accepted == IF TLCGet("stats").diameter - 1 = Len(Rec) THEN TRUE
            ELSE /\ PrintT(<<"REJECTED", TLCGet("stats").diameter, ToJson(Rec[TLCGet("stats").diameter]), ToJson(TLCGet(1))>>)
                 /\ FALSE
=============================================================================
