------------------------------ MODULE Builder ------------------------------
(***************************************************************************)
(* The builder's type-state chain as a state machine (C13, C14).            *)
(* builder() exists iff BuilderSound(decl).  The const generic of           *)
(* Partial<MASK> is the set of bits written so far; with_<f> is enabled     *)
(* only at the mask reached after the previous writable field, build() only *)
(* at the final mask.                                                       *)
(***************************************************************************)
EXTENDS BuilderOps, ModelDecls, TLC

VARIABLES bdecl, k, acc, mask, args, built
bvars == <<bdecl, k, acc, mask, args, built>>

WI(d) == WritableIdx(d)
Init == /\ bdecl \in BuilderDecls
        /\ k = 0 /\ acc = InitialValue(bdecl) /\ mask = {} /\ args = <<>> /\ built = FALSE

(* builder() *)
Offered == BuilderSound(bdecl)

(* with_<f>(vals): only the step whose receiver type Partial<mask> matches *)
Step == /\ Offered /\ ~built
        /\ \E j \in 1..Len(WI(bdecl)) :
             LET f == bdecl.fields[WI(bdecl)[j]] IN
             /\ mask = MaskAfter(bdecl, j - 1)                  \* impl Partial<previous mask>
             /\ \E vals \in [1..Count(f) -> SUBSET (0..(Width(f) - 1))] :
                  /\ acc' = FoldElems(acc, f, vals, 0)
                  /\ args' = Append(args, vals)
             /\ mask' = mask \cup Cover(f)
             /\ k' = k + 1
        /\ UNCHANGED <<bdecl, built>>

(* build(): impl Partial<final mask> *)
Build == /\ Offered /\ ~built /\ mask = FinalMask(bdecl)
         /\ built' = TRUE /\ UNCHANGED <<bdecl, k, acc, mask, args>>

Next == Step \/ Build
Spec == Init /\ [][Next]_bvars

MaskIsCover == mask = MaskAfter(bdecl, k)
(* forgetting a field is impossible: build() is reachable only after every writable field *)
BuildOnlyWhenComplete == built => k = Len(WI(bdecl))
BuildIsFold == built => acc = BuildFold(bdecl, args)
(* bits covered by no writable field keep the default's value; every writable element reads back its argument *)
DefaultKept == built => acc \ WCover(bdecl) = InitialValue(bdecl) \ WCover(bdecl)
ArgsReadBack == built => \A j \in 1..Len(WI(bdecl)) :
                   LET f == bdecl.fields[WI(bdecl)[j]] IN
                   \A i \in 0..(Count(f) - 1) : Read(acc, Pos(f, i)) = args[j][i + 1]
(* an unsound declaration offers nothing *)
NoBuilderWhenUnsound == ~Offered => (k = 0 /\ ~built)
=============================================================================
