--------------------------- MODULE RegisterTrace ---------------------------
(***************************************************************************)
(* Trace validation: is a recorded execution of the REAL generated code a   *)
(* behaviour of Register.tla?  One event per public call (harness/rt.rs),   *)
(* every argument and result logged, so validation is linear: each trace    *)
(* action is  <event kind matches> /\ <Register action with the logged      *)
(* arguments> /\ <logged observation = the specification's out'>.           *)
(* All of Register's invariants are evaluated after every event.            *)
(***************************************************************************)
EXTENDS Register, BuilderOps, DebugFmt, Json, IOUtils

Rec   == ndJsonDeserialize(IOEnv.TRACEFILE)
Decls == JsonDeserialize(IOEnv.DECLFILE)
(* Decls is a sequence; decl ids are positions - 1 *)

VARIABLE l
tvars == <<decl, obj, shadow, out, l>>

Ev == Rec[l]
S(x) == SeqToSet(x)
FI(e) == e.field + 1

(* logged observation equals the specification's *)
SameObs(logged, spec) ==
  /\ logged.k = spec.k
  /\ IF spec.k \in {"var", "ok"} THEN logged.name = spec.name ELSE S(logged.v) = spec.v

(* decimal rendering logged by the glue for small integers (w <= 16):
   unsigned value, or two's-complement value for iN               (C05) *)
DecOK(f, logged, bits) ==
  logged.dec = "" \/
    IF f.kind = "inat" THEN logged.dec = ToString(SignedVal(bits, Width(f)))
    ELSE logged.dec = ToString(Val(bits))

TInit == /\ l = 1
         /\ decl = Decls[1]
         /\ obj = [s \in Slot |-> {}]
         /\ shadow = [s \in Slot |-> [b \in 0..(Decls[1].n - 1) |-> FALSE]]
         /\ out = Obs("init", {})

TReset == /\ Ev.ev = "reset"
          /\ decl' = Decls[Ev.decl + 1]
          /\ obj' = [s \in Slot |-> {}]
          /\ shadow' = [s \in Slot |-> [b \in 0..(Decls[Ev.decl + 1].n - 1) |-> FALSE]]
          /\ out' = Obs("reset", {})

(* new_with_raw_value(r) followed by raw_value(): must give r back (C06) *)
TNew == /\ Ev.ev = "new"
        /\ New(Ev.slot, S(Ev.raw))
        /\ Ev.res.k = "bits" /\ S(Ev.res.v) = S(Ev.raw)

TConst == /\ Ev.ev = "const"
          /\ \/ Ev.which = "zero" /\ Zero(Ev.slot)
             \/ Ev.which \in {"default", "default_trait", "new"} /\ Default(Ev.slot)
          /\ Ev.res.k = "bits" /\ S(Ev.res.v) = obj'[Ev.slot]

TRaw == /\ Ev.ev = "raw"
        /\ Raw(Ev.slot)
        /\ Ev.res.k = "bits" /\ S(Ev.res.v) = out'.v

TCopy == Ev.ev = "copy" /\ Copy(Ev.src, Ev.dst)

TRewrap == Ev.ev = "rewrap" /\ ~Ev.panic /\ Rewrap(Ev.src, Ev.dst)

TGet == /\ Ev.ev = "get"
        /\ LET f == F(FI(Ev)) IN
           IF Ev.idx < Count(f) /\ DupBits(f)
           THEN /\ GetDup(Ev.slot, FI(Ev), Ev.idx)                    \* value unspecified (C04), but total (C16)
                /\ Ev.res.k # "panic"
           ELSE IF Ev.idx < Count(f)
           THEN /\ Get(Ev.slot, FI(Ev), Ev.idx)
                /\ SameObs(Ev.res, out')
                /\ DecOK(f, Ev.res, out'.v)
           ELSE /\ OOB(Ev.slot, FI(Ev), Ev.idx)          \* must panic, nothing read (C03)
                /\ Ev.res.k = "panic"

TWith == /\ Ev.ev = "with"
         /\ LET f == F(FI(Ev)) IN
            IF Ev.idx < Count(f) /\ DupBits(f)
            THEN /\ ~Ev.panic /\ ~Ev.raw_panic
                 /\ WithDup(Ev.src, Ev.dst, FI(Ev), Ev.idx, S(Ev.dst_raw))
                 /\ S(Ev.store) = S(Ev.dst_raw)
                 /\ (Ev.src # Ev.dst => S(Ev.src_raw) = obj[Ev.src])
            ELSE IF Ev.idx < Count(f)
            THEN /\ ~Ev.panic /\ ~Ev.raw_panic
                 /\ With(Ev.src, Ev.dst, FI(Ev), Ev.idx, S(Ev.arg))
                 /\ S(Ev.dst_raw) = obj'[Ev.dst]                       \* exactly the field rewritten
                 /\ S(Ev.store) = obj'[Ev.dst]                         \* ... in the storage integer too (C11)
                 /\ (Ev.src # Ev.dst => S(Ev.src_raw) = obj[Ev.src])   \* receiver unchanged
            ELSE /\ Ev.panic
                 /\ OOB(Ev.src, FI(Ev), Ev.idx)
                 /\ S(Ev.dst_raw) = obj[Ev.dst]

TSet == /\ Ev.ev = "set"
        /\ LET f == F(FI(Ev)) IN
           IF Ev.idx < Count(f) /\ DupBits(f)
           THEN /\ ~Ev.panic /\ ~Ev.raw_panic
                /\ WithDup(Ev.slot, Ev.slot, FI(Ev), Ev.idx, S(Ev.raw))
                /\ S(Ev.store) = S(Ev.raw)
           ELSE IF Ev.idx < Count(f)
           THEN /\ ~Ev.panic /\ ~Ev.raw_panic
                /\ Set(Ev.slot, FI(Ev), Ev.idx, S(Ev.arg))
                /\ S(Ev.raw) = obj'[Ev.slot]
                /\ S(Ev.store) = obj'[Ev.slot]
           ELSE /\ Ev.panic
                /\ OOB(Ev.slot, FI(Ev), Ev.idx)
                /\ S(Ev.raw) = obj[Ev.slot]                 \* a caught set_ panic modified nothing

(* builder().with_..(..)...build()  (C13) *)
TBuild == /\ Ev.ev = "build" /\ ~Ev.panic
          /\ LET r == BuildFold(decl, [k \in 1..Len(Ev.args) |-> [m \in 1..Len(Ev.args[k]) |-> S(Ev.args[k][m])]])
             IN  /\ New(Ev.dst, r)
                 /\ S(Ev.raw) = r /\ S(Ev.store) = r

(* C06: size and alignment of the smallest native integer holding the base *)
TLayout == /\ Ev.ev = "layout"
           /\ Ev.size = decl.s \div 8 /\ Ev.size = Ev.nsize /\ Ev.align = Ev.nalign
           /\ UNCHANGED <<decl, obj, shadow>> /\ out' = Obs("layout", {})

(* C19: `lines` is the Debug text of the object split into lines, `parts[k]` the lines of
   format!("{:?}"/"{:#?}", x.<field k>()) obtained through the public getter.  The text must be
   the standard struct composition of the parts, in declaration order; and each part must be the
   rendering of the value the specification says the getter returns (small widths). *)
PartOK(f, part, bits) ==
  CASE f.kind = "bool" -> part = <<IF 0 \in bits THEN "true" ELSE "false">>
    [] f.kind \in {"uarb", "unat"} /\ Width(f) <= 16 -> part = <<ToString(Val(bits))>>
    [] f.kind = "inat" /\ Width(f) <= 16 -> part = <<ToString(SignedVal(bits, Width(f)))>>
    [] f.kind = "enum" -> part = <<Present(f, bits).name>>
    [] f.kind = "optenum" /\ Present(f, bits).k = "ok" -> part = <<"Ok(" \o Present(f, bits).name \o ")">>
    [] OTHER -> TRUE
(* evaluated as ONE boolean value (`= TRUE`): TLC explores disjunctions that appear at action level as alternative
   successors, which would multiply identical successor states (2^fields for the per-field disjunction below) *)
DebugOK ==
  /\ Len(Ev.parts) = Len(decl.fields)
  /\ Len(Ev.plain) = Len(decl.fields)
  (* a raw identifier (r#type) may be rendered as written (stringify!) or without the r# (as derive(Debug) does):
     the property says "by name" and both are the field's name *)
  /\ \/ Ev.lines = ComposeLines(decl.name, [k \in 1..Len(decl.fields) |-> decl.fields[k].name], Ev.parts, Ev.alt)
     \/ Ev.lines = ComposeLines(decl.name, [k \in 1..Len(decl.fields) |-> Ev.plain[k]], Ev.parts, Ev.alt)
  /\ \A k \in 1..Len(decl.fields) :
        (Len(Ev.parts[k]) = 1 \/ Ev.alt) /\
        (~Ev.alt => PartOK(decl.fields[k], Ev.parts[k], Read(obj[Ev.slot], Pos(decl.fields[k], 0))))
TDebug == /\ Ev.ev = "debug" /\ ~Ev.panic
          /\ DebugOK = TRUE
          /\ UNCHANGED <<decl, obj, shadow>> /\ out' = Obs("debug", {})

TNext == /\ l <= Len(Rec)
         /\ l' = l + 1
         /\ \/ TReset \/ TNew \/ TConst \/ TRaw \/ TCopy \/ TRewrap
            \/ TGet \/ TWith \/ TSet \/ TBuild \/ TLayout \/ TDebug

(* every invariant of Register is evaluated after every event of the implementation trace *)
StepInv == TypeOK /\ UpperBitsZero /\ LastWriteWins
TNextChecked == TNext /\ StepInv'
(* remember the last matched state so that a rejection can be explained (needs -workers 1) *)
Track == TLCSet(1, [l |-> l, obj |-> obj])

TSpec == TInit /\ [][TNext]_tvars

Accepted == IF TLCGet("stats").diameter - 1 = Len(Rec) THEN TRUE
            ELSE /\ PrintT(<<"REJECTED", TLCGet("stats").diameter, ToJson(Rec[TLCGet("stats").diameter]), ToJson(TLCGet(1))>>)
                 /\ FALSE
=============================================================================
