INIT Init
NEXT Next
INVARIANTS Theorems Emit
CHECK_DEADLOCK FALSE
