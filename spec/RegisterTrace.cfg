CONSTANTS
  Slot = {"a", "b"}
INIT TInit
NEXT TNextChecked
CONSTRAINT Track
POSTCONDITION Accepted
CHECK_DEADLOCK FALSE
