INIT TInit
NEXT TNext
CONSTRAINT Track
POSTCONDITION Accepted
CHECK_DEADLOCK FALSE
