CONSTANTS
  FixBounds = FALSE
  FixReversed = FALSE
  FixSelfOverlap = FALSE
INIT Init
NEXT Next
INVARIANTS Refines ProfileIndependent
CHECK_DEADLOCK FALSE
