CONSTANTS
  Slot = {"a", "b"}
INIT Init
NEXT Next
INVARIANTS Inv Emit
CHECK_DEADLOCK FALSE
