----------------------------- MODULE ModelDecls -----------------------------
(* Small model declarations explored exhaustively by TLC.  The same records  *)
(* are written out as JSON (Corpus.tla) and compiled with the real macro, so *)
(* every transition TLC explores can be replayed on the real object.         *)
EXTENDS Naturals, Sequences

Fld(name, kind, tw, ty, ranges, list, array, stride, access) ==
  [name |-> name, kind |-> kind, tw |-> tw, ty |-> ty, ranges |-> ranges, list |-> list,
   array |-> array, stride |-> stride, access |-> access]
Dcl(id, n, s, def, fields, enums) ==
  [id |-> id, name |-> "T", n |-> n, s |-> s, def |-> def, defform |-> "lit", defsyn |-> "=",
   debug |-> FALSE, fields |-> fields, enums |-> enums, nested |-> <<>>]

(* u5 base: overlapping fields, a non-contiguous list, a bool array, a read-only full-width view *)
MA == Dcl(0, 5, 8, <<>>,
       << Fld("a", "uarb", 2, 0, << <<0, 1>> >>, FALSE, <<>>, <<>>, "rw"),
          Fld("b", "bool", 1, 0, << <<2, 2>> >>, FALSE, <<>>, <<>>, "rw"),
          Fld("c", "uarb", 3, 0, << <<4, 4>>, <<2, 3>> >>, TRUE, <<>>, <<>>, "rw"),
          Fld("d", "bool", 1, 0, << <<3, 3>> >>, FALSE, <<2>>, <<>>, "rw"),
          Fld("e", "uarb", 5, 0, << <<0, 4>> >>, FALSE, <<>>, <<>>, "r") >>,
       <<>>)
(* u6 base with default: Option<enum> field, array of u2 with stride 2, write-only bit *)
E3 == [name |-> "E", n |-> 2, exh |-> "false",
       variants |-> << [name |-> "A", d |-> <<>>, cfg |-> "none", form |-> "lit", doc |-> FALSE], [name |-> "B", d |-> <<0>>, cfg |-> "none", form |-> "lit", doc |-> FALSE],
                       [name |-> "D", d |-> <<0, 1>>, cfg |-> "none", form |-> "lit", doc |-> FALSE] >>]
MB == Dcl(1, 6, 8, << <<0, 5>> >>,
       << Fld("k", "optenum", 2, 1, << <<0, 1>> >>, FALSE, <<>>, <<>>, "rw"),
          Fld("arr", "uarb", 2, 0, << <<2, 3>> >>, FALSE, <<2>>, <<>>, "rw"),
          Fld("w", "bool", 1, 0, << <<5, 5>> >>, FALSE, <<>>, <<>>, "w"),
          Fld("hi", "uarb", 3, 0, << <<3, 5>> >>, FALSE, <<>>, <<>>, "r") >>,
       << E3 >>)
(* native u8 base: full-width signed field, aliased by nibbles *)
MC8 == Dcl(2, 8, 8, <<>>,
       << Fld("s", "inat", 8, 0, << <<0, 7>> >>, FALSE, <<>>, <<>>, "rw"),
          Fld("lo", "uarb", 4, 0, << <<0, 3>> >>, FALSE, <<>>, <<>>, "rw"),
          Fld("m", "bool", 1, 0, << <<4, 4>> >>, FALSE, <<>>, <<>>, "rw"),
          Fld("hi", "uarb", 3, 0, << <<5, 7>> >>, FALSE, <<>>, <<>>, "rw"),
          Fld("x", "uarb", 4, 0, << <<6, 7>>, <<0, 1>> >>, TRUE, <<>>, <<>>, "rw") >>,
       <<>>)
(* u9 base (16-bit storage): signed byte below the top bit, interleaved non-contiguous array *)
MD == Dcl(3, 9, 16, <<>>,
       << Fld("s", "inat", 8, 0, << <<1, 8>> >>, FALSE, <<>>, <<>>, "rw"),
          Fld("z", "bool", 1, 0, << <<0, 0>> >>, FALSE, <<>>, <<>>, "rw"),
          Fld("il", "uarb", 2, 0, << <<0, 0>>, <<4, 4>> >>, TRUE, <<3>>, <<1>>, "rw"),
          Fld("top", "bool", 1, 0, << <<8, 8>> >>, FALSE, <<>>, <<>>, "rw") >>,
       <<>>)
(* builder models: default with a bit outside every writable field and a read-only gap; complete cover without default *)
BD1 == Dcl(4, 5, 8, << <<4>> >>,
        << Fld("a", "uarb", 2, 0, << <<0, 1>> >>, FALSE, <<>>, <<>>, "rw"),
           Fld("b", "bool", 1, 0, << <<2, 2>> >>, FALSE, <<>>, <<>>, "w"),
           Fld("c", "uarb", 2, 0, << <<3, 4>> >>, FALSE, <<>>, <<>>, "r") >>,
        <<>>)
BD2 == Dcl(5, 4, 8, <<>>,
        << Fld("x", "uarb", 1, 0, << <<0, 0>> >>, FALSE, <<2>>, <<>>, "rw"),
           Fld("y", "uarb", 2, 0, << <<3, 3>>, <<2, 2>> >>, TRUE, <<>>, <<>>, "rw") >>,
        <<>>)
(* not sound: two writable fields share bit 1 / incomplete without default *)
BD3 == Dcl(6, 4, 8, <<>>,
        << Fld("p", "uarb", 2, 0, << <<0, 1>> >>, FALSE, <<>>, <<>>, "rw"),
           Fld("q", "uarb", 2, 0, << <<1, 2>> >>, FALSE, <<>>, <<>>, "rw") >>,
        <<>>)
BD4 == Dcl(7, 4, 8, <<>>,
        << Fld("p", "uarb", 2, 0, << <<0, 1>> >>, FALSE, <<>>, <<>>, "rw") >>,
        <<>>)
(* u5 base with range lists that name a bit twice (accepted by the macro; Register!WithDup): next to an ordinary field *)
MDup == Dcl(8, 5, 8, <<>>,
       << Fld("x", "uarb", 4, 0, << <<0, 2>>, <<2, 2>> >>, TRUE, <<>>, <<>>, "rw"),
          Fld("y", "uarb", 2, 0, << <<4, 4>>, <<4, 4>> >>, TRUE, <<>>, <<>>, "rw"),
          Fld("z", "uarb", 2, 0, << <<3, 4>> >>, FALSE, <<>>, <<>>, "rw") >>,
       <<>>)
DupDecls == {MDup}
BuilderDecls == {BD1, BD2, BD3, BD4}
SmallDecls == {MA, MB}
ByteDecls  == {MC8}
NineDecls  == {MD}
AllModelDecls == <<MA, MB, MC8, MD, BD1, BD2, BD3, BD4>>
=============================================================================
