CONSTANTS
  Slot = {"a", "b"}
  DeclSet <- SmallDecls
SPECIFICATION Spec
VIEW View
INVARIANTS TypeOK UpperBitsZero LastWriteWins ReadBack Frame GetArith DisjointCommute WriteBackIdentity
PROPERTIES ReceiverSame DeclConstant
CHECK_DEADLOCK FALSE
