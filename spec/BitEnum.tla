------------------------------ MODULE BitEnum ------------------------------
(***************************************************************************)
(* #[bitenum(uN, exhaustive = ...)]: the documented acceptance rule (C10)   *)
(* and the raw-value conversions (C07).                                     *)
(*                                                                         *)
(* Enum declaration record:                                                *)
(*  [ name, n, exh \in {"true","false","conditional","omitted"},            *)
(*    variants : Seq([ name, d : Seq(bit)  (the discriminant as a bit set), *)
(*                     cfg \in {"none","on","off","onoff","offon"} (#[cfg]    *)
(*                         gates -- one, or two of which one is false -- and  *)
(*                         whether the variant is compiled in this build),    *)
(*                     form \in {"lit","hex","bin","oct","under","suf",           *)
(*                               "missing","expr"} ]) ]                     *)
(***************************************************************************)
EXTENDS Naturals, Sequences, FiniteSets

ESet(s) == {s[k] : k \in 1..Len(s)}
Pow2(n) == 2^n
(* counts are compared with 2^n only where 2^n is representable and could matter *)
CountEq(c, n)  == n <= 20 /\ c = Pow2(n)
CountLt(c, n)  == n > 20 \/ c < Pow2(n)

DiscrFits(e, v) == ESet(v.d) \subseteq 0..(e.n - 1)
Gated(v)  == v.cfg # "none"
Active(e) == {k \in 1..Len(e.variants) : e.variants[k].cfg \in {"none", "on"}}

(* an integer literal in any spelling (decimal, 0x.., 0b.., 0o.., with underscores) is a literal discriminant *)
LitForms == {"lit", "hex", "bin", "oct", "under", "suf"}     \* "suf": a literal suffixed with the storage type (18u8) under the matching #[repr]
(* C10 *)
EnumValid(e) ==
  /\ e.n \in 1..64
  /\ Len(e.variants) >= 1
  /\ \A k \in 1..Len(e.variants) : e.variants[k].form \in LitForms /\ DiscrFits(e, e.variants[k])
  /\ ((\E k \in 1..Len(e.variants) : Gated(e.variants[k])) => e.exh = "conditional")
  /\ (e.exh = "true" => CountEq(Len(e.variants), e.n))
  /\ (e.exh \in {"false", "omitted"} => CountLt(Len(e.variants), e.n))
  (* discriminants of simultaneously compiled variants are distinct (rustc E0081) *)
  /\ \A j, k \in Active(e) : j # k => ESet(e.variants[j].d) # ESet(e.variants[k].d)

Exhaustive(e) == e.exh = "true"

(* C07: new_with_raw_value(x) for an N-bit x given as a bit set *)
Matches(e, x) == {k \in Active(e) : ESet(e.variants[k].d) = x}
FromRaw(e, x) ==
  IF Matches(e, x) # {}
  THEN [k |-> IF Exhaustive(e) THEN "var" ELSE "ok", v |-> x, name |-> e.variants[CHOOSE k \in Matches(e, x) : TRUE].name]
  ELSE IF Exhaustive(e) THEN [k |-> "undefined", v |-> x, name |-> ""]
       ELSE [k |-> "err", v |-> x, name |-> ""]
(* variant.raw_value() *)
ToRaw(e, k) == ESet(e.variants[k].d)

AllRaw(e) == SUBSET (0..(e.n - 1))
(* both compositions are the identity *)
EnumInverse(e) ==
  /\ \A k \in Active(e) : FromRaw(e, ToRaw(e, k)).name = e.variants[k].name /\ FromRaw(e, ToRaw(e, k)).k \in {"var", "ok"}
  /\ \A x \in AllRaw(e) : FromRaw(e, x).k \in {"var", "ok"} =>
        \E k \in Active(e) : e.variants[k].name = FromRaw(e, x).name /\ ToRaw(e, k) = x
(* an accepted exhaustive enum converts every raw value: no failure, no panic *)
ExhaustiveTotal(e) == (EnumValid(e) /\ Exhaustive(e)) => \A x \in AllRaw(e) : FromRaw(e, x).k = "var"
(* accepted enums never name an unrepresentable variant, and Err carries the raw value *)
ErrCarriesRaw(e) == \A x \in AllRaw(e) : FromRaw(e, x).v = x
=============================================================================
