----------------------------- MODULE MC_Register -----------------------------
EXTENDS Register, ModelDecls
CONSTANT DeclSet
Init == /\ decl \in DeclSet
        /\ obj = [s \in Slot |-> {}]
        /\ shadow = [s \in Slot |-> [b \in 0..(decl.n - 1) |-> FALSE]]
        /\ out = Obs("init", {})
NxNew     == \E s \in Slot : \E r \in SUBSET Bits : New(s, r)
NxDefault == \E s \in Slot : Default(s)
NxCopy    == \E s, t \in Slot : Copy(s, t)
NxRewrap  == \E s, t \in Slot : Rewrap(s, t)
NxRaw     == \E s \in Slot : Raw(s)
NxGet     == \E s \in Slot : \E j \in Fields : \E i \in 0..(Count(F(j)) - 1) : Get(s, j, i)
NxWith    == \E s, t \in Slot : \E j \in Fields : \E i \in 0..(Count(F(j)) - 1) :
               \E v \in SUBSET (0..(Width(F(j)) - 1)) : With(s, t, j, i, v)
NxOOB     == \E s \in Slot : \E j \in Fields : \E i \in Count(F(j))..(Count(F(j)) + 1) : OOB(s, j, i)
Next == NxNew \/ NxDefault \/ NxCopy \/ NxRewrap \/ NxRaw \/ NxGet \/ NxWith \/ NxOOB
Spec == Init /\ [][Next]_vars
View == <<decl.id, obj, shadow>>
=============================================================================
