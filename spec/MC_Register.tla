----------------------------- MODULE MC_Register -----------------------------
EXTENDS Register, ModelDecls
CONSTANT DeclSet
Init == /\ decl \in DeclSet
        /\ obj = [s \in Slot |-> {}]
        /\ shadow = [s \in Slot |-> [b \in 0..(decl.n - 1) |-> FALSE]]
        /\ out = Obs("init", {})
NxNew     == \E s \in Slot : \E r \in SUBSET Bits : New(s, r)
NxDefault == \E s \in Slot : Default(s)
NxCopy    == \E s, t \in Slot : Copy(s, t)
NxRewrap  == \E s, t \in Slot : Rewrap(s, t)
NxRaw     == \E s \in Slot : Raw(s)
NxGet     == \E s \in Slot : \E j \in Fields : \E i \in 0..(Count(F(j)) - 1) : ~DupBits(F(j)) /\ Get(s, j, i)
NxWith    == \E s, t \in Slot : \E j \in Fields : \E i \in 0..(Count(F(j)) - 1) :
               \E v \in SUBSET (0..(Width(F(j)) - 1)) : ~DupBits(F(j)) /\ With(s, t, j, i, v)
(* fields whose list names a bit twice: the write produces SOME state below bit N (what the implementation is allowed to do);
   the invariants must survive any such state *)
NxGetDup  == \E s \in Slot : \E j \in Fields : \E i \in 0..(Count(F(j)) - 1) : GetDup(s, j, i)
NxWithDup == \E s, t \in Slot : \E j \in Fields : \E i \in 0..(Count(F(j)) - 1) : \E r \in SUBSET Bits : WithDup(s, t, j, i, r)
NxOOB     == \E s \in Slot : \E j \in Fields : \E i \in Count(F(j))..(Count(F(j)) + 1) : OOB(s, j, i)
Next == NxNew \/ NxDefault \/ NxCopy \/ NxRewrap \/ NxRaw \/ NxGet \/ NxWith \/ NxGetDup \/ NxWithDup \/ NxOOB
Spec == Init /\ [][Next]_vars
View == <<decl.id, obj, shadow>>
=============================================================================
