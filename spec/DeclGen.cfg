INIT Init
NEXT Next
INVARIANTS AlwaysValid Emit
CHECK_DEADLOCK FALSE
