------------------------------ MODULE DeclGen ------------------------------
(***************************************************************************)
(* The declaration grammar as a state machine: TLC enumerates PROGRAMS.     *)
(*   - breadth-first search with small constants enumerates a declaration   *)
(*     space exhaustively;                                                  *)
(*   - `tlc -simulate num=N -depth D -seed S` samples the large space,      *)
(*     deterministically per seed.                                          *)
(* A declaration is built field by field: Plan (how many ranges, array or   *)
(* not), AddRange (one range at a time), Close (type, access, stride),      *)
(* Finish.  In mode "valid" every enabling condition keeps the declaration  *)
(* inside Decl!Valid (asserted by the invariant AlwaysValid); in mode       *)
(* "overlap" fields may overlap each other but each list stays injective.   *)
(***************************************************************************)
EXTENDS Decl, ModelDecls, Json, IOUtils, TLC

Mode      == IOEnv.GEN_MODE                 \* "valid" (pairwise disjoint fields) | "overlap"
Bases     == IF "GEN_BASES" \in DOMAIN IOEnv THEN {atoi(IOEnv.GEN_BASES)} ELSE
             {3, 5, 8, 9, 12, 16, 24, 31, 32, 33, 48, 64, 65, 100, 127, 128}
MaxFields == atoi(IOEnv.GEN_MAXFIELDS)
Custom    == IF "GEN_CUSTOM" \in DOMAIN IOEnv THEN IOEnv.GEN_CUSTOM = "1" ELSE FALSE     \* rich mode: custom-typed fields, defaults
Lens      == {1, 2, 3, 4, 5, 7, 8, 12, 16, 24, 32, 64}
Native    == {8, 16, 32, 64, 128}

VARIABLES decl, ranges, plan, done
gvars == <<decl, ranges, plan, done>>

Used == IF Mode = "valid" THEN UNION {Cover(decl.fields[j]) : j \in 1..Len(decl.fields)} ELSE {}
CurBits == UNION {r[1]..r[2] : r \in Ran(ranges)}

Init == /\ \E n \in Bases : \E df \in ({<<>>, << <<>> >>} \cup (IF Custom THEN {<< [k \in 1..n |-> k - 1] >>, << [k \in 1..((n + 1) \div 2) |-> 2 * (k - 1)] >>} ELSE {})) :
             \* no default | default = 0 | (rich mode) all ones | alternating bits
             decl = [id |-> 0, name |-> "T", n |-> n, s |-> StorageOf(n), def |-> df, defform |-> "lit",
                                    defsyn |-> "=", debug |-> FALSE, fields |-> <<>>, enums |-> <<>>, nested |-> <<>>]
        /\ ranges = <<>> /\ plan = [nr |-> 0, arr |-> FALSE] /\ done = FALSE

Plan == /\ ~done /\ plan.nr = 0 /\ Len(decl.fields) < MaxFields
        /\ \E nr \in {1, 1, 2, 3} : \E arr \in BOOLEAN : plan' = [nr |-> nr, arr |-> arr]
        /\ UNCHANGED <<decl, ranges, done>>

AddRange == /\ ~done /\ plan.nr > 0 /\ Len(ranges) < plan.nr
            /\ \E len \in Lens : \E lo \in 0..(decl.n - 1) :
                 /\ lo + len <= decl.n
                 /\ (lo..(lo + len - 1)) \cap (CurBits \cup Used) = {}
                 /\ SumW(ranges) + len <= 128
                 /\ ranges' = Append(ranges, <<lo, lo + len - 1>>)
            /\ UNCHANGED <<decl, plan, done>>

(* array placement: K elements at stride s must stay in bounds (and, in mode valid, clear of other fields) *)
ArrayChoices(w, top) ==
  {<<K, s>> \in (2..8) \X {w, w + 1, w + 3, 8, 16, 32} :
      /\ (Len(ranges) = 1 => s >= w)
      /\ top + (K - 1) * s < decl.n}
(* custom-typed fields: a non-exhaustive bitenum over u<w> read through Option<..>, an exhaustive one (w <= 3), a nested bitfield *)
EnumNonExhG(w) == [name |-> "O" \o ToString(w), n |-> w, exh |-> "false",
                   variants |-> IF w = 1 THEN << [name |-> "Z", d |-> <<>>, cfg |-> "none", form |-> "lit", doc |-> FALSE] >>
                                ELSE IF w = 2 THEN << [name |-> "Z", d |-> <<>>, cfg |-> "none", form |-> "lit", doc |-> FALSE],
                                                      [name |-> "One", d |-> <<0>>, cfg |-> "none", form |-> "lit", doc |-> FALSE],
                                                      [name |-> "Ones", d |-> <<0, 1>>, cfg |-> "none", form |-> "lit", doc |-> FALSE] >>
                                ELSE << [name |-> "Z", d |-> <<>>, cfg |-> "none", form |-> "lit", doc |-> FALSE],
                                        [name |-> "One", d |-> <<0>>, cfg |-> "none", form |-> "lit", doc |-> FALSE],
                                        [name |-> "Top", d |-> <<w - 1>>, cfg |-> "none", form |-> "lit", doc |-> FALSE],
                                        [name |-> "Ones", d |-> [k \in 1..w |-> k - 1], cfg |-> "none", form |-> "lit", doc |-> FALSE] >>]
BitsSeq(x, w) == LET S == {k \in 0..(w - 1) : (x \div 2^k) % 2 = 1} IN
                 [i \in 1..Cardinality(S) |-> CHOOSE b \in S : Cardinality({c \in S : c < b}) = i - 1]
EnumExhG(w) == [name |-> "X" \o ToString(w), n |-> w, exh |-> "true",
                variants |-> [k \in 1..(2^w) |-> [name |-> "V" \o ToString(2^w - k), d |-> BitsSeq(2^w - k, w), cfg |-> "none", form |-> "lit", doc |-> FALSE]]]
(* index of an enum / nested definition in the declaration, appending it when new *)
WithEnum(d, e) == IF \E k \in 1..Len(d.enums) : d.enums[k].name = e.name THEN d ELSE [d EXCEPT !.enums = Append(@, e)]
EnumIdx(d, nm) == CHOOSE k \in 1..Len(d.enums) : d.enums[k].name = nm
WithNested(d, nd) == IF \E k \in 1..Len(d.nested) : d.nested[k].name = nd.name THEN d ELSE [d EXCEPT !.nested = Append(@, nd)]
NestedIdx(d, nm) == CHOOSE k \in 1..Len(d.nested) : d.nested[k].name = nm

Close == /\ ~done /\ plan.nr > 0 /\ Len(ranges) = plan.nr
         /\ LET w   == SumW(ranges)
                top == CHOOSE h \in {r[2] : r \in Ran(ranges)} : \A r \in Ran(ranges) : r[2] <= h
                kinds == (IF w \in Native THEN {"unat", "inat"}
                          ELSE IF w = 1 /\ Len(ranges) = 1 THEN {"bool", "uarb"} ELSE {"uarb"})
                         \cup (IF Custom /\ w <= 64 THEN {"optenum", "nested"} ELSE {})
                         \cup (IF Custom /\ w <= 3 THEN {"enum"} ELSE {})
            IN \E kind \in kinds : \E acc \in {"rw", "rw", "w", "r"} :
                 \E ar \in (IF plan.arr /\ ArrayChoices(w, top) # {} THEN ArrayChoices(w, top) ELSE {<<0, 0>>}) :
                   LET f == [name |-> "f" \o ToString(Len(decl.fields)), kind |-> kind, tw |-> w, ty |-> 0,
                             ranges |-> ranges, list |-> Len(ranges) > 1,
                             array |-> IF ar[1] = 0 THEN <<>> ELSE <<ar[1]>>,
                             stride |-> IF ar[1] = 0 \/ (Len(ranges) = 1 /\ ar[2] = w) THEN <<>> ELSE <<ar[2]>>,
                             access |-> acc]
                       d1 == CASE kind = "optenum" -> WithEnum(decl, EnumNonExhG(w))
                               [] kind = "enum" -> WithEnum(decl, EnumExhG(w))
                               [] kind = "nested" -> WithNested(decl, [name |-> "N" \o ToString(w), n |-> w])
                               [] OTHER -> decl
                       f1 == CASE kind = "optenum" -> [f EXCEPT !.ty = EnumIdx(d1, "O" \o ToString(w))]
                               [] kind = "enum" -> [f EXCEPT !.ty = EnumIdx(d1, "X" \o ToString(w))]
                               [] kind = "nested" -> [f EXCEPT !.ty = NestedIdx(d1, "N" \o ToString(w))]
                               [] OTHER -> f
                   IN /\ (Mode = "valid" => Cover(f) \cap Used = {} /\ ~SelfOverlap(f))
                      /\ decl' = [d1 EXCEPT !.fields = Append(@, f1)]
         /\ ranges' = <<>> /\ plan' = [nr |-> 0, arr |-> FALSE] /\ UNCHANGED done

Finish == /\ ~done /\ plan.nr = 0 /\ Len(decl.fields) >= 1
          /\ done' = TRUE /\ UNCHANGED <<decl, ranges, plan>>

Next == Plan \/ AddRange \/ Close \/ Finish

AlwaysValid == Valid(decl)
Emit == done => PrintT(<<"DECL", ToJson(decl)>>)
=============================================================================
