---------------------------- MODULE VerdictTrace ----------------------------
(***************************************************************************)
(* Compile-time conformance: TLC enumerated the programs (DeclSpace,        *)
(* DeclGen, EnumGen, Corpus), rustc + the REAL macro judged them, and each  *)
(* recorded verdict is validated here against the documented-rule           *)
(* operators (Decl!Valid, BitEnum!EnumValid, Decl!Api/AbsentApi,            *)
(* Decl!BuilderSound, Decl!ChainVerdict).  One event per judged program or  *)
(* probe; the events are independent, so the "trace" is a list of cases.    *)
(***************************************************************************)
EXTENDS Decl, BitEnum, AttrGrammar

Rec   == ndJsonDeserialize(IOEnv.TRACEFILE)
Decls == JsonDeserialize(IOEnv.DECLFILE)

VARIABLE l
Ev   == Rec[l]
D(e) == Decls[e.decl + 1]

(* C09: accepted exactly when the documented rule holds; a rejection is located at the declaration *)
TVerdict == /\ Ev.ev = "verdict"
            /\ (Verdict(D(Ev)) = "accept" => Ev.accepted)
            /\ (Verdict(D(Ev)) = "reject" => ~Ev.accepted /\ Ev.in_decl)
(* C11 (and C06): additionally the declared default must be a value of the declared base width *)
TDefVerdict == /\ Ev.ev = "dverdict"
               /\ ((Verdict(D(Ev)) = "accept" /\ DefaultFits(D(Ev))) => Ev.accepted)
               /\ ((Verdict(D(Ev)) = "reject" \/ ~DefaultFits(D(Ev))) => ~Ev.accepted /\ Ev.in_decl)
(* C09, attribute grammar: a malformed attribute is rejected (never mis-parsed into something else); a canonical,
   well-formed one is judged by the layout rule applied to what the grammar says it means *)
TGVerdict == /\ Ev.ev = "gverdict"
             /\ LET gv == GrammarVerdict(D(Ev).gram) IN
                /\ (gv = "must_reject" /\ EnforceReject(D(Ev).gram) => ~Ev.accepted /\ Ev.in_decl)
                /\ (gv = "must_accept" /\ Verdict(D(Ev)) = "accept" => Ev.accepted)
                /\ (gv = "must_accept" /\ Verdict(D(Ev)) = "reject" => ~Ev.accepted)
                (* in ANY item order: an attribute whose items are all well formed can only mean what they say, and a
                   declaration that means something the layout rule forbids must not compile *)
                /\ (MeaningDefined(D(Ev).gram) /\ Verdict(D(Ev)) = "reject" => ~Ev.accepted)
(* C10 *)
TEnumVerdict == /\ Ev.ev = "everdict"
                /\ Ev.accepted <=> EnumValid(D(Ev))
                /\ (~Ev.accepted => Ev.in_decl)

FieldByName(d, nm) == CHOOSE j \in 1..Len(d.fields) : d.fields[j].name = nm
(* C17: the API surface is decided by the access specifier.  kind \in get / with / set *)
ProbeExpected(d, kind, nm) ==
  LET f == d.fields[FieldByName(d, nm)] IN
  CASE kind = "get"  -> Readable(f)
    [] kind = "with" -> Writable(f)
    [] kind = "set"  -> Writable(f)
TProbe == /\ Ev.ev = "probe"
          /\ Ev.compiles <=> ProbeExpected(D(Ev), Ev.kind, Ev.field)
          (* an absent accessor is absent: the failure is "no such method", nothing else *)
          /\ (~Ev.compiles => Ev.code = "E0599")

(* C17: whatever else a declaration asks for (e.g. the `debug` option), a field that is not readable has no getter --
   either the declaration is rejected or the read does not compile *)
TNoRead == /\ Ev.ev = "noread"
           /\ (~Readable(D(Ev).fields[FieldByName(D(Ev), Ev.field)]) => ~Ev.compiles)

(* C14: builder() offered exactly when sound *)
TBuilder == /\ Ev.ev = "builder"
            /\ Ev.compiles <=> BuilderSound(D(Ev))
(* C14/C17: chains of builder calls; three-valued oracle *)
TChain == /\ Ev.ev = "chain"
          /\ LET v == ChainVerdict(D(Ev), Ev.calls) IN
             /\ (v = "must_compile" => Ev.compiles)
             /\ (v = "must_fail" => ~Ev.compiles)

(* C15: every const member of Api(d) is usable in a const item *)
TConst == /\ Ev.ev = "constprobe"
          /\ [m |-> Ev.item, const |-> TRUE] \in (Api(D(Ev)) \cup BuilderApi(D(Ev)) \cup EnumApi(D(Ev)))
          /\ Ev.compiles

(* C18: the regime (no_std, deny(missing_docs), forbid(unsafe_code)) must not matter for a valid declaration;
   the recorded expansion contains no `unsafe` token and no path rooted outside the allowed crates *)
(* C19: a declaration with the `debug` option and a field that cannot be printed through a getter (write-only, no access,
   array) does not compile -- it is not silently printed without that field; the printable controls compile *)
TDebugVerdict == /\ Ev.ev = "dbgverdict"
                 /\ D(Ev).debug /\ Valid(D(Ev))
                 /\ Ev.accepted <=> DebugApplies(D(Ev))
TRegime == /\ Ev.ev = "regime"
           /\ (Valid(D(Ev)) => Ev.compiles)
AllowedRoots == {"core", "arbitrary_int", "Self", "self", "crate_local"}
TExpansion == /\ Ev.ev = "expansion"
              /\ ~Ev.has_unsafe
              /\ \A k \in 1..Len(Ev.roots) : Ev.roots[k] \in AllowedRoots

TInit == l = 1
TNext == /\ l <= Len(Rec) /\ l' = l + 1
         /\ (TVerdict \/ TGVerdict \/ TDefVerdict \/ TEnumVerdict \/ TNoRead \/ TProbe \/ TBuilder \/ TChain \/ TConst \/ TRegime \/ TExpansion \/ TDebugVerdict)
Accepted == IF TLCGet("stats").diameter - 1 = Len(Rec) THEN TRUE
            ELSE /\ PrintT(<<"REJECTED", TLCGet("stats").diameter, ToJson(Rec[TLCGet("stats").diameter]), "-">>)
                 /\ FALSE
=============================================================================
