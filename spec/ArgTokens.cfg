INIT TInit
NEXT TNext
INVARIANT TEmit
INVARIANT TRefines
CHECK_DEADLOCK FALSE
