------------------------------ MODULE ArgTokens ------------------------------
(***************************************************************************)
(* The attribute language at TOKEN level.                                   *)
(*                                                                          *)
(* AttrGrammar.tla describes the documented grammar over hand-picked ITEMS. *)
(* This module (1) enumerates items as token strings -- every string of up  *)
(* to three tokens over a token alphabet, every one-token edit (substitute, *)
(* delete, insert) of the well-formed range and stride forms, bracketed     *)
(* lists of up to two elements -- and classifies each with the documented   *)
(* item grammar; (2) transcribes the macro's ArgumentParser state machine   *)
(* (parsing.rs: take_literal / take_punct / take_ident / finished_argument, *)
(* the token ids that tell one list from two) as an implementation-shaped   *)
(* model; (3) lets TLC check, on the whole space, that the state machine    *)
(* REFINES the documented grammar where the grammar speaks:                 *)
(*     must_accept      => accepted, with the meaning the items state       *)
(*     meaning defined  => if accepted at all, with that meaning            *)
(* and lists where it is more lenient than documented (malformed attributes *)
(* it accepts): C09 quantifies over well-formed attributes only, so those   *)
(* are reported, not judged.  The same space is then put to the REAL macro  *)
(* (gen/verdicts.py, VerdictTrace!TGVerdict; accepted attributes with a     *)
(* defined meaning are traced through their accessors), and the model's     *)
(* prediction is compared with the real verdict (MODEL-DRIFT report).       *)
(***************************************************************************)
EXTENDS AttrGrammar, Integers

---------------------------------------------------------------------------
(* tokens *)
Nums    == {"2", "5"}
NumVal(s) == IF s = "2" THEN 2 ELSE IF s = "3" THEN 3 ELSE 5
BadLits == {"0x2"}                           \* a literal the macro's decimal-only reader refuses
Tl(s) == [k |-> "lit",   s |-> s, g |-> <<>>]
Tp(s) == [k |-> "punct", s |-> s, g |-> <<>>]
Ti(s) == [k |-> "ident", s |-> s, g |-> <<>>]
Tg(d, es) == [k |-> "group", s |-> d, g |-> es]       \* es: elements [toks, expr, text]
Alphabet == {Tl(s) : s \in Nums \cup BadLits} \cup {Tp(s) : s \in {".", "=", ":"}} \cup {Ti(s) : s \in {"rw", "stride", "x"}}

(* list elements: token string, whether rustc parses it as an expression (the macro parses the bracket group as an array
   expression first), and its text *)
El(toks, expr, text) == [toks |-> toks, expr |-> expr, text |-> text]
RangeToks(a, b) == <<Tl(a), Tp("."), Tp("."), Tp("="), Tl(b)>>
Elems == { El(<<Tl("2")>>, TRUE, "2"), El(RangeToks("5", "5"), TRUE, "5..=5"), El(RangeToks("2", "3"), TRUE, "2..=3"),
           El(RangeToks("3", "2"), TRUE, "3..=2"), El(<<Ti("rw")>>, TRUE, "rw"),
           El(<<Tl("2"), Tp("."), Tp("."), Tl("3")>>, TRUE, "2..3"), El(<<Tl("2"), Tp("."), Tp("."), Tp("=")>>, FALSE, "2..="),
           El(<<Tl("0x2")>>, TRUE, "0x2") }
Groups == {Tg("[", <<>>)} \cup {Tg("[", <<e>>) : e \in Elems} \cup {Tg("[", <<e, f>>) : e, f \in Elems} \cup {Tg("(", <<El(<<Tl("2")>>, TRUE, "2")>>)}

---------------------------------------------------------------------------
(* the documented item grammar, on token strings *)
IsNum(t) == t.k = "lit" /\ t.s \in Nums \cup {"3"}
IsRangeToks(ts) == Len(ts) = 5 /\ IsNum(ts[1]) /\ ts[2] = Tp(".") /\ ts[3] = Tp(".") /\ ts[4] = Tp("=") /\ IsNum(ts[5])
IsSingleToks(ts) == Len(ts) = 1 /\ IsNum(ts[1])
ElemRange(ts) == IF IsRangeToks(ts) THEN <<NumVal(ts[1].s), NumVal(ts[5].s)>> ELSE <<NumVal(ts[1].s), NumVal(ts[1].s)>>
IsListTok(t) == t.k = "group" /\ t.s = "[" /\ Len(t.g) >= 1 /\ \A j \in 1..Len(t.g) : IsRangeToks(t.g[j].toks) \/ IsSingleToks(t.g[j].toks)
ItemCls(ts) ==
  IF IsRangeToks(ts) THEN "range"
  ELSE IF IsSingleToks(ts) THEN "single"
  ELSE IF Len(ts) = 1 /\ IsListTok(ts[1]) THEN "list"
  ELSE IF Len(ts) = 1 /\ ts[1].k = "ident" /\ ts[1].s \in {"r", "w", "rw"} THEN "access"
  ELSE IF Len(ts) = 3 /\ ts[1] = Ti("stride") /\ ts[2] \in {Tp("="), Tp(":")} /\ IsNum(ts[3]) THEN "stride"
  ELSE "bad"
ItemRanges(ts) ==
  CASE ItemCls(ts) \in {"range", "single"} -> <<ElemRange(ts)>>
    [] ItemCls(ts) = "list" -> [j \in 1..Len(ts[1].g) |-> ElemRange(ts[1].g[j].toks)]
    [] ItemCls(ts) = "stride" -> << <<NumVal(ts[3].s), NumVal(ts[3].s)>> >>       \* the stride's value rides in `ranges`
    [] OTHER -> <<>>
RECURSIVE JoinS(_, _)
JoinS(ss, sep) == IF ss = <<>> THEN "" ELSE IF Len(ss) = 1 THEN ss[1] ELSE ss[1] \o sep \o JoinS(Tail(ss), sep)
TokText(t) == IF t.k # "group" THEN t.s
              ELSE t.s \o JoinS([j \in 1..Len(t.g) |-> t.g[j].text], ", ") \o (IF t.s = "[" THEN "]" ELSE ")")
(* well-formed items are written tight (`2..=5`, `stride=2`), malformed ones token by token *)
ItemText(ts) == JoinS([j \in 1..Len(ts) |-> TokText(ts[j])], IF ItemCls(ts) = "bad" THEN " " ELSE "")
TokItem(ts) == [text |-> ItemText(ts), cls |-> ItemCls(ts), ranges |-> ItemRanges(ts), toks |-> ts]

---------------------------------------------------------------------------
(* the implementation-shaped model: ArgumentParser *)
St(st, a, b) == [st |-> st, a |-> a, b |-> b]
ERRS == St("ERR", 0, 0)
ResetFor(inarr) == IF inarr THEN St("ResetOnly", 0, 0) ELSE St("Reset", 0, 0)
TakeLit(s, t) ==
  IF s.st \in {"Reset", "ResetOnly"} THEN (IF IsNum(t) THEN St("Lower", NumVal(t.s), 0) ELSE ERRS)
  ELSE IF s.st = "Eq" THEN (IF IsNum(t) THEN St("Both", s.a, NumVal(t.s)) ELSE ERRS)
  ELSE IF s.st = "StrideEq" THEN (IF IsNum(t) THEN St("StrideDone", NumVal(t.s), 0) ELSE ERRS)
  ELSE ERRS
TakePunct(s, t) ==
  IF s.st = "Lower" /\ t.s = "." THEN St("P1", s.a, 0)
  ELSE IF s.st = "P1" /\ t.s = "." THEN St("P2", s.a, 0)
  ELSE IF s.st = "P2" /\ t.s = "=" THEN St("Eq", s.a, 0)
  ELSE IF s.st = "StrideStarted" /\ t.s \in {"=", ":"} THEN St("StrideEq", 0, 0)
  ELSE ERRS
TakeIdent(s, t) ==
  IF s.st # "Reset" THEN ERRS
  ELSE IF t.s = "rw" THEN St("RW", 0, 0) ELSE IF t.s = "r" THEN St("R", 0, 0) ELSE IF t.s = "w" THEN St("W", 0, 0)
  ELSE IF t.s = "stride" THEN St("StrideStarted", 0, 0) ELSE ERRS

Acc0 == [err |-> FALSE, ranges |-> <<>>, rtok |-> -1, getter |-> FALSE, setter |-> FALSE, stride |-> <<>>]
Bad(acc) == [acc EXCEPT !.err = TRUE]
(* finished_argument(range_parser, is_in_array, token_id) *)
Fin(acc, s, inarr, tid, isRange, isarray) ==
  IF acc.err THEN acc
  ELSE LET isR == s.st \in {"Both", "Lower"}
           clash == isR /\ (IF inarr THEN acc.rtok # -1 /\ acc.rtok # tid ELSE acc.ranges # <<>>)
           acc1 == IF isR THEN [acc EXCEPT !.rtok = tid] ELSE acc
       IN IF clash THEN Bad(acc)
          ELSE CASE s.st = "Both" -> IF s.b < s.a \/ (~inarr /\ ~isRange) THEN Bad(acc1)
                                     ELSE [acc1 EXCEPT !.ranges = Append(@, <<s.a, s.b>>)]
                 [] s.st = "Lower" -> IF isRange /\ ~inarr THEN Bad(acc1) ELSE [acc1 EXCEPT !.ranges = Append(@, <<s.a, s.a>>)]
                 [] s.st = "RW" -> [acc1 EXCEPT !.getter = TRUE, !.setter = TRUE]
                 [] s.st = "R" -> [acc1 EXCEPT !.getter = TRUE]
                 [] s.st = "W" -> [acc1 EXCEPT !.setter = TRUE]
                 [] s.st = "StrideDone" -> IF ~isarray THEN Bad(acc1) ELSE [acc1 EXCEPT !.stride = <<s.a>>]
                 [] s.st = "Reset" -> acc1
                 [] OTHER -> Bad(acc1)

(* parse_argument_tokens: ts with commas as tokens [k |-> "comma"]; token ids are positions - 1 *)
Comma == [k |-> "comma", s |-> ",", g |-> <<>>]
RECURSIVE RunToks(_, _, _, _, _, _, _, _), RunElems(_, _, _, _, _, _)
RunToks(ts, i, s, inarr, outer, acc, isRange, isarray) ==
  IF acc.err THEN acc
  ELSE IF s.st = "ERR" THEN Bad(acc)
  ELSE IF i > Len(ts) THEN Fin(acc, s, inarr, IF outer >= 0 THEN outer ELSE Len(ts), isRange, isarray)
  ELSE LET t == ts[i] tid == i - 1 IN
       IF t.k = "group"
       THEN (* parse2::<ExprArray>(group).unwrap(): anything but a bracketed list of expressions panics = is rejected *)
            IF t.s # "[" \/ \E j \in 1..Len(t.g) : ~t.g[j].expr THEN Bad(acc)
            ELSE RunToks(ts, i + 1, s, inarr, outer, RunElems(t.g, 1, tid, acc, isRange, isarray), isRange, isarray)
       ELSE IF t.k = "comma"
       THEN RunToks(ts, i + 1, ResetFor(inarr), inarr, outer, Fin(acc, s, inarr, IF outer >= 0 THEN outer ELSE tid, isRange, isarray), isRange, isarray)
       ELSE IF t.k = "ident" THEN RunToks(ts, i + 1, TakeIdent(s, t), inarr, outer, acc, isRange, isarray)
       ELSE IF t.k = "punct" THEN RunToks(ts, i + 1, TakePunct(s, t), inarr, outer, acc, isRange, isarray)
       ELSE RunToks(ts, i + 1, TakeLit(s, t), inarr, outer, acc, isRange, isarray)
RunElems(es, j, tid, acc, isRange, isarray) ==
  IF j > Len(es) THEN acc
  ELSE RunElems(es, j + 1, tid, RunToks(es[j].toks, 1, ResetFor(TRUE), TRUE, tid, acc, isRange, isarray), isRange, isarray)

RECURSIVE Flatten(_, _)
Flatten(items, k) == IF k > Len(items) THEN <<>>
                     ELSE (IF k > 1 THEN <<Comma>> ELSE <<>>) \o items[k].toks \o Flatten(items, k + 1)
AttrToks(g) == Flatten(g.items, 1) \o (IF g.trailing THEN <<Comma>> ELSE <<>>)
ImplOutcome(g) ==
  LET acc == RunToks(AttrToks(g), 1, ResetFor(FALSE), FALSE, -1, Acc0, g.head = "bits", g.isarray)
  IN  IF acc.err \/ acc.ranges = <<>> THEN [err |-> TRUE, ranges |-> <<>>, access |-> "none", stride |-> <<>>]
      ELSE [err |-> FALSE, ranges |-> acc.ranges, stride |-> acc.stride,
            access |-> IF acc.getter /\ acc.setter THEN "rw" ELSE IF acc.getter THEN "r" ELSE IF acc.setter THEN "w" ELSE "none"]

---------------------------------------------------------------------------
(* the space *)
Strs(n) == UNION {[1..m -> Alphabet] : m \in 1..n}
Subst(ts) == {[ts EXCEPT ![p] = t] : p \in 1..Len(ts), t \in Alphabet}
Del(ts) == {SubSeq(ts, 1, p - 1) \o SubSeq(ts, p + 1, Len(ts)) : p \in 1..Len(ts)}
Ins(ts) == {SubSeq(ts, 1, p) \o <<t>> \o SubSeq(ts, p + 1, Len(ts)) : p \in 0..Len(ts), t \in Alphabet}
Templates == {RangeToks("2", "5"), RangeToks("5", "5"), RangeToks("5", "2"), <<Ti("stride"), Tp("="), Tl("2")>>, <<Ti("stride"), Tp(":"), Tl("5")>>,
              <<Ti("rw")>>, <<Tl("5")>>}
GroupItems == {<<gr>> : gr \in Groups}
              \cup {<<gr, Ti("rw")>> : gr \in {Tg("[", <<El(<<Tl("2")>>, TRUE, "2")>>)}}          \* missing comma after the list
              \cup {<<Tl("5"), gr>> : gr \in {Tg("[", <<El(<<Tl("2")>>, TRUE, "2")>>)}}
ItemStrs == (Strs(IF Level >= 2 THEN 3 ELSE 2) \cup Templates \cup UNION {Subst(ts) \cup Del(ts) \cup Ins(ts) : ts \in Templates} \cup GroupItems) \ {<<>>}
Items == {TokItem(ts) : ts \in ItemStrs}
GoodRange == TokItem(RangeToks("2", "5"))
GoodList  == TokItem(<<Tg("[", <<El(<<Tl("5")>>, TRUE, "5"), El(RangeToks("2", "3"), TRUE, "2..=3")>>)>>)
RW        == TokItem(<<Ti("rw")>>)
Heads == IF Level >= 2 THEN {<<"bits", TRUE>>, <<"bits", FALSE>>, <<"bit", FALSE>>, <<"bit", TRUE>>} ELSE {<<"bits", TRUE>>, <<"bit", FALSE>>}
Seqs == {<<it>> : it \in Items}
        \cup {<<GoodRange, it>> : it \in Items} \cup {<<it, GoodRange>> : it \in {x \in Items : x.cls # "bad" \/ Level >= 2}}
        \cup {<<GoodList, it>> : it \in {x \in Items : x.cls # "bad" \/ Level >= 2}}
        \cup {<<GoodRange, RW, it>> : it \in {x \in Items : x.cls \in {"stride", "access", "single", "range"} \/ Level >= 2}}
TSpace == {[head |-> h[1], isarray |-> h[2], items |-> s, trailing |-> tr, enforce_reject |-> FALSE] :
              h \in Heads, s \in Seqs, tr \in (IF Level >= 2 THEN BOOLEAN ELSE {FALSE})}
          \cup {[head |-> "bits", isarray |-> TRUE, items |-> s, trailing |-> TRUE, enforce_reject |-> FALSE] :
                   s \in {<<GoodRange>>, <<GoodRange, RW>>, <<GoodList, RW, TokItem(<<Ti("stride"), Tp("="), Tl("5")>>)>>}}

---------------------------------------------------------------------------
(* design-level refinement, checked by TLC on every attribute of the space *)
SameMeaning(o, g) == o.ranges = GRanges(g) /\ o.access = GAccess(g) /\ o.stride = GStride(g)
(* a reversed range is well-formed syntax that the layout rule (Decl!Valid) forbids; the macro refuses it while parsing *)
Ordered(g) == \A k \in 1..Len(GRanges(g)) : GRanges(g)[k][1] <= GRanges(g)[k][2]
Refines(g) ==
  LET o == ImplOutcome(g) IN
  /\ (GrammarVerdict(g) = "must_accept" /\ Ordered(g) => ~o.err /\ SameMeaning(o, g))
  /\ (MeaningDefined(g) /\ ~o.err => SameMeaning(o, g))
Lenient(g) == GrammarVerdict(g) = "must_reject" /\ ~ImplOutcome(g).err

VARIABLES tg, tdone
TInit == tg \in TSpace /\ tdone = TRUE
TNext == UNCHANGED <<tg, tdone>>
TEmit == PrintT(<<"ATTR", ToJson([gram |-> [head |-> tg.head, isarray |-> tg.isarray, trailing |-> tg.trailing, enforce_reject |-> FALSE,
                                             items |-> [k \in 1..Len(tg.items) |-> [text |-> tg.items[k].text, cls |-> tg.items[k].cls,
                                                                                      ranges |-> tg.items[k].ranges]]],
                                   verdict |-> GrammarVerdict(tg), meaning |-> MeaningDefined(tg),
                                   ranges |-> IF ~MeaningDefined(tg) THEN <<>> ELSE GRanges(tg),
                                   access |-> IF ~MeaningDefined(tg) THEN "none" ELSE GAccess(tg),
                                   stride |-> IF ~MeaningDefined(tg) THEN <<>> ELSE GStride(tg),
                                   model |-> ImplOutcome(tg), lenient |-> Lenient(tg)])>>)
TRefines == Refines(tg)
=============================================================================
