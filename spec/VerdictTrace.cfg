INIT TInit
NEXT TNext
POSTCONDITION Accepted
CHECK_DEADLOCK FALSE
