------------------------------- MODULE Corpus -------------------------------
(***************************************************************************)
(* The fixed program corpora, as TLA+ set/sequence expressions evaluated    *)
(* and written to JSON by TLC (ASSUME JsonSerialize(..)).  Seeded random     *)
(* programs come from DeclGen.tla in simulation mode.  Every declaration     *)
(* here is Valid (checked by the ASSUME at the end) unless the family says   *)
(* otherwise.                                                                *)
(***************************************************************************)
EXTENDS Decl, BitEnum, ModelDecls, SequencesExt, Json, IOUtils, TLC

Native == {8, 16, 32, 64, 128}
Sto(n) == StorageOf(n)
Name(p, k) == p \o ToString(k)

MkDecl(n, def, fields, enums, nested, debug) ==
  [id |-> 0, name |-> "T", n |-> n, s |-> Sto(n), def |-> def, defform |-> "lit", defsyn |-> "=",
   debug |-> debug, fields |-> fields, enums |-> enums, nested |-> nested]
Renumber(ds) == [k \in 1..Len(ds) |-> [ds[k] EXCEPT !.id = k - 1]]
(* give the fields of a sequence distinct names f0, f1, ... *)
NameFields(fs) == [k \in 1..Len(fs) |-> [fs[k] EXCEPT !.name = Name("f", k - 1)]]

Scalar(kind, w, lo, acc) == Fld("f", kind, w, 0, << <<lo, lo + w - 1>> >>, FALSE, <<>>, <<>>, acc)
KindsFor(w) == IF w \in Native THEN {"unat", "inat"} ELSE IF w = 1 THEN {"bool", "uarb"} ELSE {"uarb"}

---------------------------------------------------------------------------
(* Q-star: every boundary width at every boundary position on every class   *)
(* of base (C01, C02, C05, C16)                                             *)
StarBases  == {1, 2, 3, 5, 7, 8, 9, 12, 15, 16, 17, 24, 31, 32, 33, 48, 63, 64, 65, 96, 127, 128}
StarWidths == {1, 2, 3, 7, 8, 9, 15, 16, 17, 31, 32, 33, 63, 64, 65, 127, 128}
StarFields(W, widths) ==
  SetToSeq({Scalar(k, w, lo, "rw") : <<k, w, lo>> \in
     {<<k, w, lo>> \in {"bool", "uarb", "unat", "inat"} \X widths \X (0..W) :
         /\ w <= W /\ k \in KindsFor(w)
         /\ lo \in ({0, 1, W - w} \cup (IF W - w >= 1 THEN {W - w - 1} ELSE {})) /\ lo + w <= W}})
QStar == [k \in 1..Cardinality(StarBases) |->
            LET W == SetToSeq(StarBases)[k] IN MkDecl(W, <<>>, NameFields(StarFields(W, StarWidths)), <<>>, <<>>, FALSE)]

---------------------------------------------------------------------------
(* standard enums: discriminants given as bit sets so that any width works  *)
AsSeq(S) == SetToSeq(S)
V(nm, d) == [name |-> nm, d |-> d, cfg |-> "none", form |-> "lit", doc |-> FALSE]
EnumNonExh(nm, n) ==
  [name |-> nm, n |-> n, exh |-> "false",
   variants |-> IF n = 1 THEN << V("Z", <<>>) >>
                ELSE IF n = 2 THEN << V("Z", <<>>), V("One", <<0>>), V("Ones", <<0, 1>>) >>
                ELSE << V("Z", <<>>), V("One", <<0>>), V("Top", <<n - 1>>), V("Ones", [k \in 1..n |-> k - 1]) >>]
(* all 2^n values, n <= 4, declared in a shuffled (descending) order *)
BitsOfN(x, w) == {k \in 0..(w - 1) : (x \div 2^k) % 2 = 1}
EnumExh(nm, n) ==
  [name |-> nm, n |-> n, exh |-> "true",
   variants |-> [k \in 1..(2^n) |-> V(Name("V", 2^n - k), AsSeq(BitsOfN(2^n - k, n)))]]

---------------------------------------------------------------------------
(* Q-arr: arrays (C03)                                                       *)
ArrFld(kind, w, ty, lo, K, stride, acc) ==
  Fld("f", kind, w, ty, << <<lo, lo + w - 1>> >>, FALSE, <<K>>, stride, acc)
ArrBases == {8, 12, 16, 31, 32, 64, 100, 128}
(* element kinds: <<kind, w, ty>>; ty 1 = E2 (exhaustive u2), ty 2 = O3 (non-exhaustive u3) *)
ArrElems == { <<"bool", 1, 0>>, <<"uarb", 1, 0>>, <<"uarb", 3, 0>>, <<"unat", 8, 0>>, <<"inat", 8, 0>>,
              <<"unat", 16, 0>>, <<"enum", 2, 1>>, <<"optenum", 3, 2>> }
MaxK(W, lo, w, s) == ((W - lo - w) \div s) + 1
ArrFields(W) ==
  SetToSeq({ArrFld(e[1], e[2], e[3], lo, K, IF sd = 0 THEN <<>> ELSE <<e[2] + sd>>, "rw") :
     <<e, lo, sd, K>> \in
       {<<e, lo, sd, K>> \in ArrElems \X {0, 1} \X {0, 1, 3, 8} \X (2..128) :
          /\ MaxK(W, lo, e[2], e[2] + sd) >= 2
          /\ K \in {2, 3, MaxK(W, lo, e[2], e[2] + sd)} /\ K <= MaxK(W, lo, e[2], e[2] + sd)}})
QArr == [k \in 1..Cardinality(ArrBases) |->
           LET W == SetToSeq(ArrBases)[k] IN
           MkDecl(W, <<>>, NameFields(ArrFields(W)), <<EnumExh("E2", 2), EnumNonExh("O3", 3)>>, <<>>, FALSE)]

---------------------------------------------------------------------------
(* Q-nc: non-contiguous range lists (C04)                                    *)
ListFld(kind, ranges, arr, stride, acc) ==
  LET f == Fld("f", kind, 0, 0, ranges, TRUE, arr, stride, acc) IN [f EXCEPT !.tw = Width(f)]
KindOfW(w) == IF w \in Native THEN "unat" ELSE "uarb"
L(ranges) == ListFld(KindOfW(SumW(ranges)), ranges, <<>>, <<>>, "rw")
LS(ranges) == ListFld("inat", ranges, <<>>, <<>>, "rw")
LA(ranges, K, s) == ListFld(KindOfW(SumW(ranges)), ranges, <<K>>, <<s>>, "rw")
LSA(ranges, K, s) == ListFld("inat", ranges, <<K>>, <<s>>, "rw")
Rev8  == [k \in 1..8 |-> <<8 - k, 8 - k>>]                    \* bit reversal of a byte
Rev7  == [k \in 1..7 |-> <<7 - k, 7 - k>>]
LK(kind, ty, ranges, arr, stride) ==
  LET f == Fld("f", kind, 0, ty, ranges, TRUE, arr, stride, "rw") IN [f EXCEPT !.tw = Width(f)]
ListKinds(W) == <<
  LK("bool", 0, << <<5, 5>> >>, <<>>, <<>>), LK("bool", 0, << <<W - 1, W - 1>> >>, <<>>, <<>>),
  LK("bool", 0, << <<3, 3>> >>, <<4>>, <<>>), LK("bool", 0, << <<1, 1>> >>, <<3>>, <<7>>), LK("bool", 0, << <<0, 0>> >>, <<W>>, <<1>>),
  LK("enum", 1, << <<9, 9>>, <<2, 2>> >>, <<>>, <<>>), LK("enum", 1, << <<W - 1, W - 1>>, <<0, 0>> >>, <<>>, <<>>),
  LK("enum", 1, << <<0, 0>>, <<8, 8>> >>, <<4>>, <<2>>), LK("enum", 1, << <<4, 4>>, <<1, 1>> >>, <<3>>, <<5>>),
  LK("enum", 1, << <<2, 3>> >>, <<3>>, <<2>>), LK("enum", 1, << <<1, 2>> >>, <<>>, <<>>),
  LK("optenum", 2, << <<10, 10>>, <<0, 1>> >>, <<>>, <<>>), LK("optenum", 2, << <<W - 2, W - 1>>, <<3, 3>> >>, <<>>, <<>>),
  LK("optenum", 2, << <<0, 1>>, <<12, 12>> >>, <<4>>, <<3>>), LK("optenum", 2, << <<6, 6>>, <<0, 1>> >>, <<3>>, <<7>>),
  LK("optenum", 2, << <<4, 6>> >>, <<2>>, <<3>>) >>
QNcFixed == <<
  MkDecl(8, <<>>, NameFields(<< L(Rev8), L(<< <<4, 7>>, <<0, 3>> >>), L(<< <<7, 7>>, <<0, 0>> >>),
                                L(<< <<2, 3>>, <<6, 7>>, <<0, 0>> >>), LA(<< <<0, 0>>, <<2, 2>>, <<4, 4>>, <<6, 6>> >>, 2, 1),
                                LA(<< <<1, 1>>, <<0, 0>> >>, 4, 2) >>), <<>>, <<>>, FALSE),
  MkDecl(7, <<>>, NameFields(<< L(Rev7), L(<< <<5, 6>>, <<0, 1>> >>), LA(<< <<0, 0>>, <<3, 3>> >>, 3, 1),
                                LA(<< <<1, 1>>, <<4, 4>> >>, 3, 0) >>), <<>>, <<>>, FALSE),      \* stride 0: all elements are the same bits
  MkDecl(16, <<>>, NameFields(<< L(<< <<8, 15>>, <<0, 7>> >>), LS(<< <<12, 15>>, <<0, 3>> >>), LS(<< <<4, 7>>, <<8, 11>> >>),
                                 L(<< <<15, 15>>, <<0, 6>> >>), LA(<< <<1, 1>>, <<3, 3>>, <<5, 5>>, <<7, 7>> >>, 2, 8),
                                 LSA(<< <<4, 7>>, <<0, 3>> >>, 2, 8), L(<< <<3, 10>>, <<0, 2>>, <<11, 15>> >>) >>), <<>>, <<>>, FALSE),
  (* RISC-V style immediates and byte swaps on u32 *)
  MkDecl(32, <<>>, NameFields(<< L(<< <<24, 31>>, <<16, 23>>, <<8, 15>>, <<0, 7>> >>),
                                 L(<< <<8, 11>>, <<25, 30>>, <<7, 7>>, <<31, 31>> >>),
                                 L(<< <<21, 30>>, <<20, 20>>, <<12, 19>>, <<31, 31>> >>),
                                 LS(<< <<28, 31>>, <<0, 3>> >>), LS(<< <<16, 23>>, <<0, 7>> >>),
                                 L(<< <<7, 11>>, <<25, 31>> >>), LA(<< <<0, 1>>, <<16, 17>> >>, 4, 2),
                                 LSA(<< <<0, 3>>, <<16, 19>> >>, 3, 4), L(<< <<31, 31>>, <<0, 30>> >>) >>), <<>>, <<>>, FALSE),
  MkDecl(24, <<>>, NameFields(<< L(<< <<16, 23>>, <<0, 7>> >>), LS(<< <<20, 23>>, <<0, 3>> >>), L(<< <<23, 23>>, <<0, 0>>, <<12, 12>> >>),
                                 LA(<< <<0, 0>>, <<12, 12>> >>, 12, 1), LSA(<< <<0, 3>>, <<12, 15>> >>, 2, 4) >>), <<>>, <<>>, FALSE),
  MkDecl(64, <<>>, NameFields(<< L(<< <<32, 63>>, <<0, 31>> >>), LS(<< <<48, 63>>, <<0, 15>> >>), LS(<< <<32, 63>>, <<0, 31>> >>),
                                 L(<< <<63, 63>>, <<0, 0>> >>), L(<< <<40, 62>>, <<1, 17>> >>), LA(<< <<0, 7>>, <<32, 39>> >>, 4, 8),
                                 LSA(<< <<0, 3>>, <<32, 35>> >>, 8, 4) >>), <<>>, <<>>, FALSE),
  MkDecl(128, <<>>, NameFields(<< L(<< <<64, 127>>, <<0, 63>> >>), LS(<< <<64, 127>>, <<0, 63>> >>), LS(<< <<96, 127>>, <<0, 31>> >>),
                                  L(<< <<127, 127>>, <<64, 64>>, <<63, 63>>, <<0, 0>> >>), L(<< <<100, 126>>, <<1, 70>> >>),
                                  LS(<< <<120, 123>>, <<60, 63>> >>), LA(<< <<0, 7>>, <<64, 71>> >>, 8, 8),
                                  LSA(<< <<0, 15>>, <<64, 79>> >>, 3, 16), LS(<< <<65, 127>>, <<0, 0>> >>) >>), <<>>, <<>>, FALSE),
  (* ascending, back-to-back lists that together cover the whole base (a merged list must not hit the full-width special case) *)
  MkDecl(8, <<>>, NameFields(<< L(<< <<0, 3>>, <<4, 7>> >>), L([k \in 1..8 |-> <<k - 1, k - 1>>]), LS(<< <<0, 0>>, <<1, 7>> >>),
                                L(<< <<0, 6>>, <<7, 7>> >>) >>), <<>>, <<>>, FALSE),
  MkDecl(16, <<>>, NameFields(<< L(<< <<0, 7>>, <<8, 15>> >>), LS(<< <<0, 7>>, <<8, 15>> >>), L(<< <<0, 3>>, <<4, 7>>, <<8, 15>> >>) >>), <<>>, <<>>, FALSE),
  MkDecl(32, <<>>, NameFields(<< L(<< <<0, 15>>, <<16, 31>> >>), LS(<< <<0, 15>>, <<16, 31>> >>), L(<< <<0, 7>>, <<8, 15>> >>) >>), <<>>, <<>>, FALSE),
  MkDecl(64, <<>>, NameFields(<< L(<< <<0, 31>>, <<32, 63>> >>), LS(<< <<0, 0>>, <<1, 63>> >>) >>), <<>>, <<>>, FALSE),
  MkDecl(128, <<>>, NameFields(<< L(<< <<0, 63>>, <<64, 127>> >>), LS(<< <<0, 63>>, <<64, 127>> >>), L(<< <<0, 31>>, <<32, 63>> >>) >>), <<>>, <<>>, FALSE),
  (* full-width lists that START at bit 0 but are not the identity permutation *)
  MkDecl(8, <<>>, NameFields(<< L(<< <<0, 0>>, <<2, 7>>, <<1, 1>> >>), LS(<< <<0, 3>>, <<6, 7>>, <<4, 5>> >>) >>), <<>>, <<>>, FALSE),
  MkDecl(16, <<>>, NameFields(<< L(<< <<0, 3>>, <<8, 15>>, <<4, 7>> >>), LS(<< <<0, 0>>, <<15, 15>>, <<1, 14>> >>) >>), <<>>, <<>>, FALSE),
  MkDecl(32, <<>>, NameFields(<< L(<< <<0, 7>>, <<16, 31>>, <<8, 15>> >>), LS(<< <<0, 15>>, <<24, 31>>, <<16, 23>> >>) >>), <<>>, <<>>, FALSE),
  MkDecl(64, <<>>, NameFields(<< L(<< <<0, 7>>, <<32, 63>>, <<8, 31>> >>) >>), <<>>, <<>>, FALSE),
  MkDecl(128, <<>>, NameFields(<< L(<< <<0, 0>>, <<64, 127>>, <<1, 63>> >>), LS(<< <<0, 31>>, <<96, 127>>, <<32, 95>> >>) >>), <<>>, <<>>, FALSE),
  MkDecl(100, <<>>, NameFields(<< L(<< <<64, 99>>, <<0, 63>> >>), LS(<< <<92, 99>>, <<0, 7>>, <<40, 55>> >>), L(<< <<99, 99>>, <<0, 0>> >>),
                                  LA(<< <<0, 1>>, <<50, 51>> >>, 25, 2) >>), <<>>, <<>>, FALSE),
  (* bool / enum / Option<enum> elements declared through LISTS (scalar, tightly and loosely strided arrays): the list code
     path with every element conversion, on a primitive and an arbitrary-int base *)
  MkDecl(32, <<>>, NameFields(ListKinds(32)), <<EnumExh("E2", 2), EnumNonExh("O3", 3)>>, <<>>, FALSE),
  MkDecl(27, <<>>, NameFields(ListKinds(27)), <<EnumExh("E2", 2), EnumNonExh("O3", 3)>>, <<>>, FALSE)
  >> \o
  (* the SAME ordered list under several fields of one struct: scalar alias first, then arrays of it with different strides
     (an accessor must not be shared between fields on the strength of equal range lists) *)
  << MkDecl(32, <<>>, NameFields(<< L(<< <<0, 0>>, <<2, 3>> >>), LA(<< <<0, 0>>, <<2, 3>> >>, 4, 4), LA(<< <<0, 0>>, <<2, 3>> >>, 3, 8),
                                    LS(<< <<4, 7>>, <<12, 15>> >>), LSA(<< <<4, 7>>, <<12, 15>> >>, 2, 16), L(<< <<0, 0>>, <<2, 3>> >>) >>), <<>>, <<>>, FALSE),
     MkDecl(24, <<>>, NameFields(<< LA(<< <<1, 1>>, <<0, 0>> >>, 4, 2), LA(<< <<1, 1>>, <<0, 0>> >>, 3, 8), L(<< <<1, 1>>, <<0, 0>> >>) >>), <<>>, <<>>, FALSE) >> \o
  (* a bare single bit written directly below / directly above a multi-bit range of the same list, and the other way round:
     adjacent items stay separate items in list order (nothing is merged, nothing is reordered) *)
  << MkDecl(16, <<>>, NameFields(<< LS(<< <<9, 15>>, <<8, 8>> >>), L(<< <<9, 15>>, <<8, 8>> >>), LS(<< <<0, 6>>, <<7, 7>> >>),
                                    L(<< <<1, 3>>, <<0, 0>>, <<4, 4>> >>), L(<< <<8, 8>>, <<1, 7>> >>), LS(<< <<8, 8>>, <<9, 15>> >>),
                                    LA(<< <<1, 2>>, <<0, 0>> >>, 4, 4), L(<< <<5, 6>>, <<4, 4>>, <<3, 3>>, <<7, 7>> >>) >>), <<>>, <<>>, FALSE),
     MkDecl(64, <<>>, NameFields(<< LS(<< <<33, 63>>, <<32, 32>> >>), LS(<< <<1, 7>>, <<0, 0>> >>),
                                    L(<< <<40, 62>>, <<39, 39>>, <<63, 63>> >>), LSA(<< <<9, 15>>, <<8, 8>> >>, 3, 16) >>), <<>>, <<>>, FALSE) >> \o
  (* list arrays whose element 0 lies in the low half (quarter) of the storage while later elements cross into the upper part:
     an accessor must not size its arithmetic by element 0 alone *)
  [k \in 1..8 |-> LET W == <<16, 32, 64, 128, 24, 40, 100, 127>>[k] IN
     MkDecl(W, <<>>, NameFields(<< LA(<< <<0, 0>>, <<2, 3>> >>, W \div 4, 4), LA(<< <<1, 1>>, <<0, 0>> >>, W \div 2, 2),
                                   LA(<< <<0, 1>>, <<4, 5>> >>, W \div 8, 8) >>
                                \o (IF W >= 32 THEN << LSA(<< <<0, 3>>, <<8, 11>> >>, W \div 16, 16) >> ELSE <<>>)), <<>>, <<>>, FALSE)]

---------------------------------------------------------------------------
(* Q-dup: range lists that name a bit twice.  The macro accepts them (no builder, C14); their value is outside C04's
   guarantee, but the calls must be total and the same in every profile (C16) and stay below bit N (C11). *)
DupFields(W) == <<
  L(<< <<0, 3>>, <<2, 5>> >>), L(<< <<2, 5>>, <<0, 3>> >>), L(<< <<W - 4, W - 1>>, <<W - 2, W - 1>> >>),
  L(<< <<W - 1, W - 1>>, <<W - 1, W - 1>> >>), L(<< <<W - 2, W - 1>>, <<W - 4, W - 1>> >>), L(<< <<0, 0>>, <<0, 0>>, <<0, 0>> >>),
  LS(<< <<0, 3>>, <<2, 5>> >>), LS(<< <<W - 4, W - 1>>, <<W - 4, W - 1>> >>), LS(<< <<W - 8, W - 1>>, <<W - 8, W - 1>> >>),
  L(<< <<W - 8, W - 1>>, <<W - 8, W - 1>> >>), LA(<< <<0, 1>>, <<1, 2>> >>, 2, 4), LA(<< <<W - 6, W - 5>>, <<W - 6, W - 5>> >>, 2, 4),
  L(<< <<0, W - 1>>, <<W - 1, W - 1>> >>) >>
QDup == [k \in 1..8 |-> LET W == <<8, 16, 32, 64, 128, 13, 24, 100>>[k] IN
           MkDecl(W, <<>>, NameFields(SelectSeq(DupFields(W), LAMBDA f : /\ Width(f) <= 128 /\ (f.kind # "inat" \/ Width(f) \in Native)
                                  (* a listed range as wide as the storage is rejected by constant evaluation: also fine, not traced *)
                                  /\ \A j \in 1..Len(f.ranges) : f.ranges[j][2] - f.ranges[j][1] + 1 < Sto(W))), <<>>, <<>>, FALSE)]

---------------------------------------------------------------------------
(* Q-cust: enum / Option<enum> / nested-bitfield typed fields (C08)          *)
CustWidths == {1, 2, 3, 7, 8, 9, 15, 16, 17, 31, 32, 33, 63, 64}
NestedWidths == {4, 8, 12, 32, 64, 128}
Places(W, w) == {0, (W - w) \div 2, W - w}
CustDecl(W, w) ==
  LET en == <<EnumNonExh("En", w)>> \o (IF w <= 3 THEN <<EnumExh("Ex", w)>> ELSE <<>>)
      scal == SetToSeq({Fld("f", k, w, ty, << <<lo, lo + w - 1>> >>, FALSE, <<>>, <<>>, "rw") :
                 <<k, ty, lo>> \in {<<k, ty, lo>> \in {"enum", "optenum", "uarb", "unat"} \X {0, 1, 2} \X Places(W, w) :
                    \/ k = "optenum" /\ ty = 1
                    \/ k = "enum" /\ ty = 2 /\ w <= 3
                    \/ k = KindOfW(w) /\ ty = 0 }})        \* sibling unsigned field aliasing the same bits
      arrs == (IF 2 * w <= W THEN <<Fld("f", "optenum", w, 1, << <<0, w - 1>> >>, FALSE, <<2>>, <<>>, "rw")>> ELSE <<>>)
              \o (IF 2 * w < W THEN <<Fld("f", "optenum", w, 1, << <<W - 2 * w, W - w - 1>> >>, FALSE, <<2>>, <<>>, "rw")>> ELSE <<>>)
              \o (IF 2 * w + 3 < W THEN <<Fld("f", "optenum", w, 1, << <<1, w>> >>, FALSE, <<2>>, <<w + 1>>, "rw")>> ELSE <<>>)
      long == IF W >= 100 /\ w <= 17 THEN <<Fld("f", "optenum", w, 1, << <<1, w>> >>, FALSE, <<(W - 1) \div (w + 2)>>, <<w + 2>>, "rw")>> ELSE <<>>
      nc   == IF w >= 2 /\ w + 1 <= W
              THEN <<Fld("f", "optenum", w, 1, << <<W - 1, W - 1>>, <<0, w - 2>> >>, TRUE, <<>>, <<>>, "rw")>> ELSE <<>>
  IN MkDecl(W, <<>>, NameFields(scal \o arrs \o long \o nc), en, <<>>, FALSE)
NestDecl(W, w) ==
  MkDecl(W, <<>>, NameFields(SetToSeq({Fld("f", k, w, ty, << <<lo, lo + w - 1>> >>, FALSE, <<>>, <<>>, "rw") :
             <<k, ty, lo>> \in {<<k, ty, lo>> \in {"nested", "uarb", "unat"} \X {0, 1} \X Places(W, w) :
                  (k = "nested" /\ ty = 1) \/ (k = KindOfW(w) /\ ty = 0)}})
          \o (IF 2 * w <= W THEN <<Fld("f", "nested", w, 1, << <<0, w - 1>> >>, FALSE, <<2>>, <<>>, "rw")>> ELSE <<>>)
          \o (IF 2 * w < W THEN <<Fld("f", "nested", w, 1, << <<W - 2 * w, W - w - 1>> >>, FALSE, <<2>>, <<>>, "rw")>> ELSE <<>>)
          \o (IF w >= 2 /\ w + 1 <= W THEN <<Fld("f", "nested", w, 1, << <<W - 1, W - 1>>, <<0, w - 2>> >>, TRUE, <<>>, <<>>, "rw")>> ELSE <<>>)),
         <<>>, << [name |-> "Inner", n |-> w] >>, FALSE)
(* incl. bases exactly as wide as the field: a custom-typed field can span the whole storage *)
CustBaseFor(w) == (IF w <= 7 THEN {8, 20} ELSE IF w <= 16 THEN {16, 33, 64} ELSE IF w <= 33 THEN {33, 64, 128} ELSE {64, 65, 128})
                  \cup (IF w \in {8, 16, 32, 64} THEN {w} ELSE {})
QCust == SetToSeq({CustDecl(W, w) : <<W, w>> \in {<<W, w>> \in (1..128) \X CustWidths : W \in CustBaseFor(w) /\ w <= W}})
         \o SetToSeq({NestDecl(W, w) : <<W, w>> \in {<<W, w>> \in {8, 12, 32, 64, 100, 128} \X NestedWidths : w <= W}})

---------------------------------------------------------------------------
(* Q-base: every base, with and without defaults (C06)                       *)
AllBases == 1..128
DefBits(W, k) == CASE k = 1 -> AsSeq({0})
                   [] k = 2 -> AsSeq({W - 1})
                   [] k = 3 -> AsSeq(0..(W - 1))
                   [] OTHER -> AsSeq({b \in 0..(W - 1) : b % 3 = 0})
(* spellings of the default: hex literal, named constant, decimal, underscores, binary, octal, and literals that carry the
   storage type as a suffix (gen/rustgen.py default_literal) *)
DefForms == <<"lit", "const", "dec", "hexsuf", "bin_", "const", "decsuf", "dec_", "hexsuf_", "oct", "binsuf">>
BaseDecl(W, def, form, syn, fields) ==
  [MkDecl(W, def, fields, <<>>, <<>>, FALSE) EXCEPT !.defform = form, !.defsyn = syn]
QBase == SetToSeq({BaseDecl(W, <<>>, "lit", "=", <<>>) : W \in AllBases})
         \o SetToSeq({BaseDecl(W, <<DefBits(W, (W % 4) + 1)>>, DefForms[(W % 11) + 1],
                               IF W % 5 = 0 THEN ":" ELSE "=",
                               (* one field that does not cover all default bits *)
                               <<Fld("lo", "bool", 1, 0, << <<0, 0>> >>, FALSE, <<>>, <<>>, "rw")>>) : W \in AllBases})
         \o SetToSeq({BaseDecl(W, <<DefBits(W, 3)>>, "lit", "=", <<>>) : W \in {8, 16, 32, 64, 128, 7, 24, 65, 100, 127}})
         \o SetToSeq({BaseDecl(W, <<DefBits(W, 2)>>, "const", ":", <<>>) : W \in {8, 16, 32, 64, 128, 9, 33, 65, 96, 127}})

---------------------------------------------------------------------------
(* Q-bld: builder layouts (C13)                                              *)
BldDecl(W, def, fields, enums) == MkDecl(W, def, NameFields(fields), enums, <<>>, FALSE)
Half(W) == W \div 2
QBld == <<
  (* complete covers without default *)
  BldDecl(8, <<>>, << Scalar("uarb", 3, 0, "rw"), Scalar("bool", 1, 3, "rw"), Scalar("uarb", 4, 4, "rw") >>, <<>>),
  BldDecl(16, <<>>, << Scalar("inat", 8, 0, "rw"), ArrFld("uarb", 2, 0, 8, 4, <<>>, "rw") >>, <<>>),
  BldDecl(32, <<>>, << L(<< <<24, 31>>, <<0, 7>> >>), Scalar("unat", 16, 8, "w") >>, <<>>),
  BldDecl(24, <<>>, << Scalar("unat", 8, 0, "rw"), Scalar("inat", 16, 8, "rw") >>, <<>>),
  BldDecl(64, <<>>, << Scalar("inat", 32, 0, "rw"), ArrFld("bool", 1, 0, 32, 32, <<>>, "rw") >>, <<>>),
  BldDecl(128, <<>>, << Scalar("inat", 64, 0, "rw"), Scalar("unat", 64, 64, "rw") >>, <<>>),
  BldDecl(128, <<>>, << Scalar("unat", 128, 0, "rw") >>, <<>>),
  BldDecl(65, <<>>, << Scalar("unat", 64, 1, "rw"), Scalar("bool", 1, 0, "rw") >>, <<>>),
  BldDecl(8, <<>>, << LA(<< <<0, 0>>, <<2, 2>>, <<4, 4>>, <<6, 6>> >>, 2, 1) >>, <<>>),
  (* with default, partial cover, default bits outside every field, read-only gaps *)
  BldDecl(8, <<AsSeq({7, 3})>>, << Scalar("uarb", 3, 0, "rw"), Scalar("bool", 1, 4, "w"), Scalar("uarb", 2, 5, "r") >>, <<>>),
  BldDecl(16, <<AsSeq({15, 0})>>, << ArrFld("uarb", 3, 0, 1, 3, <<4>>, "rw"), Scalar("bool", 1, 14, "rw") >>, <<>>),
  BldDecl(32, <<AsSeq(0..31)>>, << Scalar("inat", 8, 4, "rw"), Fld("f", "optenum", 3, 1, << <<20, 22>> >>, FALSE, <<>>, <<>>, "rw"),
                                   ArrFld("enum", 2, 2, 24, 3, <<>>, "rw") >>, <<EnumNonExh("O3", 3), EnumExh("E2", 2)>>),
  BldDecl(48, <<AsSeq({47, 40, 1})>>, << Scalar("unat", 32, 8, "rw"), Scalar("inat", 8, 40, "r") >>, <<>>),
  BldDecl(100, <<AsSeq({99, 64, 63, 0})>>, << Scalar("unat", 64, 1, "rw"), LS(<< <<92, 99>>, <<65, 72>> >>), ArrFld("bool", 1, 0, 73, 16, <<>>, "rw") >>, <<>>),
  BldDecl(128, <<AsSeq({127, 0})>>, << ArrFld("uarb", 7, 0, 1, 16, <<>>, "rw"), Scalar("bool", 1, 127, "rw") >>, <<>>),
  BldDecl(7, <<AsSeq({6, 1, 3})>>, << ArrFld("bool", 1, 0, 0, 6, <<>>, "rw") >>, <<>>),
  (* default bits INSIDE writable fields and arrays (must be overwritten), and inside a read-only field whose width
     completes the sum of all field widths to the base width (must be kept) *)
  BldDecl(8, <<AsSeq({7, 6, 0, 2})>>, << Scalar("uarb", 4, 0, "rw"), Scalar("bool", 1, 4, "w"), Scalar("uarb", 3, 5, "r") >>, <<>>),
  BldDecl(16, <<AsSeq({15, 13, 12, 9, 6, 1})>>, << ArrFld("uarb", 3, 0, 0, 4, <<>>, "rw"), Scalar("uarb", 4, 12, "r") >>, <<>>),
  BldDecl(32, <<AsSeq(0..31)>>, << ArrFld("bool", 1, 0, 4, 8, <<2>>, "rw"), Scalar("unat", 8, 24, "r"), Scalar("uarb", 4, 0, "rw"),
                                   LS(<< <<20, 23>>, <<5, 5>>, <<7, 7>>, <<9, 9>>, <<11, 11>> >>) >>, <<>>),
  BldDecl(64, <<AsSeq({63, 62, 33, 32, 31, 0})>>, << Scalar("inat", 32, 0, "rw"), ArrFld("bool", 1, 0, 32, 16, <<>>, "w"), Scalar("unat", 16, 48, "r") >>, <<>>),
  BldDecl(24, <<AsSeq(0..23)>>, << ArrFld("inat", 8, 0, 0, 2, <<>>, "rw"), Scalar("unat", 8, 16, "r") >>, <<>>),
  (* long arrays: 9..24 elements, counts that are not multiples of 8 or 16, with and without default *)
  BldDecl(24, <<>>, << ArrFld("bool", 1, 0, 0, 12, <<>>, "rw"), Scalar("uarb", 12, 12, "rw") >>, <<>>),
  BldDecl(64, <<AsSeq({63, 62, 40, 39, 5, 4, 0})>>, << ArrFld("uarb", 4, 0, 0, 10, <<>>, "rw"), Scalar("unat", 16, 48, "r") >>, <<>>),
  BldDecl(32, <<>>, << ArrFld("bool", 1, 0, 0, 20, <<>>, "rw"), Scalar("uarb", 12, 20, "rw") >>, <<>>),
  BldDecl(128, <<AsSeq(0..127)>>, << ArrFld("uarb", 4, 0, 0, 24, <<>>, "rw"), ArrFld("bool", 1, 0, 96, 17, <<>>, "rw"), ArrFld("uarb", 1, 0, 113, 9, <<>>, "w") >>, <<>>),
  BldDecl(100, <<>>, << ArrFld("uarb", 5, 0, 0, 20, <<>>, "rw") >>, <<>>),
  (* arrays with HOLES that touch bit 0 and the top bit, other fields (declared before and after) living in the holes;
     arrays whose last element fits although count * stride exceeds the base width *)
  BldDecl(16, <<AsSeq({13, 9, 4})>>, << Scalar("uarb", 4, 2, "rw"), ArrFld("uarb", 2, 0, 0, 3, <<7>>, "rw"), Scalar("uarb", 3, 9, "w"), Scalar("bool", 1, 13, "r") >>, <<>>),
  BldDecl(24, <<>>, << Scalar("uarb", 5, 8, "rw"), ArrFld("inat", 8, 0, 0, 2, <<16>>, "rw"), Scalar("uarb", 3, 13, "rw") >>, <<>>),
  BldDecl(32, <<AsSeq({31, 22, 21, 10, 9, 8})>>, << ArrFld("unat", 8, 0, 0, 3, <<12>>, "rw"), Scalar("uarb", 4, 8, "r") >>, <<>>),
  BldDecl(20, <<AsSeq({19, 6})>>, << ArrFld("enum", 2, 1, 0, 3, <<9>>, "rw"), Scalar("uarb", 3, 3, "rw") >>, <<EnumExh("E2", 2)>>),
  BldDecl(64, <<>>, << Scalar("unat", 8, 16, "rw"), ArrFld("inat", 16, 0, 0, 3, <<24>>, "rw"), Scalar("unat", 8, 40, "rw") >>, <<>>),
  BldDecl(16, <<AsSeq({15, 5})>>, << Scalar("bool", 1, 5, "w"), LA(<< <<0, 0>>, <<3, 3>> >>, 3, 6) >>, <<>>),
  (* byte (and wider native) arrays declared through LISTS whose interleaved elements tile the whole base: as many bytes as
     the storage has, but not the storage's byte image *)
  BldDecl(16, <<>>, << LA(<< <<0, 3>>, <<8, 11>> >>, 2, 4) >>, <<>>),
  BldDecl(32, <<AsSeq({31, 0})>>, << LA([k \in 1..8 |-> <<4 * (k - 1), 4 * (k - 1)>>], 4, 1) >>, <<>>),
  BldDecl(64, <<>>, << LA(<< <<0, 7>>, <<32, 39>> >>, 4, 8) >>, <<>>),
  BldDecl(32, <<>>, << LA(<< <<8, 15>>, <<0, 7>> >>, 2, 16) >>, <<>>),
  BldDecl(32, <<>>, << ArrFld("unat", 8, 0, 0, 4, <<>>, "rw") >>, <<>>),
  BldDecl(128, <<>>, << ArrFld("unat", 16, 0, 0, 8, <<>>, "rw") >>, <<>>),
  (* ONE scalar list field that fills the whole base in permuted order (byte swap, nibble swap, bit reversal, rotation) *)
  BldDecl(16, <<>>, << L(<< <<8, 15>>, <<0, 7>> >>) >>, <<>>),
  BldDecl(8, <<>>, << L(<< <<4, 7>>, <<0, 3>> >>) >>, <<>>),
  BldDecl(8, <<>>, << L(Rev8) >>, <<>>),
  BldDecl(32, <<AsSeq({0})>>, << L(<< <<24, 31>>, <<16, 23>>, <<8, 15>>, <<0, 7>> >>) >>, <<>>),
  BldDecl(64, <<>>, << LS(<< <<1, 63>>, <<0, 0>> >>) >>, <<>>),
  BldDecl(24, <<>>, << L(<< <<16, 23>>, <<0, 7>> >>), Scalar("unat", 8, 8, "rw") >>, <<>>),
  (* several array fields of DIFFERENT lengths, the longer ones declared later *)
  BldDecl(32, <<>>, << ArrFld("uarb", 4, 0, 0, 2, <<>>, "rw"), ArrFld("uarb", 4, 0, 8, 4, <<>>, "rw"), Scalar("unat", 8, 24, "rw") >>, <<>>),
  BldDecl(32, <<AsSeq({31})>>, << ArrFld("bool", 1, 0, 0, 2, <<>>, "rw"), ArrFld("bool", 1, 0, 2, 5, <<>>, "rw"), ArrFld("uarb", 2, 0, 8, 7, <<>>, "rw") >>, <<>>),
  BldDecl(64, <<>>, << ArrFld("unat", 8, 0, 0, 2, <<>>, "rw"), ArrFld("unat", 8, 0, 16, 3, <<>>, "rw"), ArrFld("uarb", 3, 0, 40, 8, <<>>, "rw") >>, <<>>)
  >>

---------------------------------------------------------------------------
(* Q-dbg: debug option (C19); all fields readable scalars                    *)
DbgDecl(W, fields, enums, nested) == MkDecl(W, <<>>, fields, enums, nested, TRUE)
N(f, nm) == [f EXCEPT !.name = nm]
QDbg == <<
  DbgDecl(8, <<>>, <<>>, <<>>),
  DbgDecl(8, << N(Scalar("bool", 1, 0, "rw"), "flag") >>, <<>>, <<>>),
  DbgDecl(16, << N(Scalar("uarb", 3, 0, "rw"), "a"), N(Scalar("bool", 1, 3, "r"), "b"), N(Scalar("inat", 8, 4, "rw"), "signed"),
                 N(Scalar("uarb", 4, 12, "rw"), "r#type") >>, <<>>, <<>>),
  DbgDecl(32, << N(Fld("f", "enum", 2, 1, << <<0, 1>> >>, FALSE, <<>>, <<>>, "rw"), "e"),
                 N(Fld("f", "optenum", 3, 2, << <<2, 4>> >>, FALSE, <<>>, <<>>, "rw"), "o"),
                 N(Fld("f", "nested", 8, 1, << <<8, 15>> >>, FALSE, <<>>, <<>>, "rw"), "inner"),
                 N(Scalar("unat", 16, 16, "rw"), "wide"), N(L(<< <<7, 7>>, <<5, 6>> >>), "nc") >>,
          <<EnumExh("E2", 2), EnumNonExh("O3", 3)>>, << [name |-> "Inner", n |-> 8] >>),
  DbgDecl(128, << N(Scalar("unat", 64, 0, "rw"), "lo"), N(Scalar("inat", 32, 64, "rw"), "mid"), N(Scalar("uarb", 31, 96, "r"), "hi"),
                  N(Scalar("bool", 1, 127, "rw"), "top") >>, <<>>, <<>>),
  DbgDecl(24, << N(Scalar("inat", 16, 8, "rw"), "s16"), N(Scalar("unat", 8, 0, "rw"), "b0"),
                 N(Fld("f", "nested", 12, 1, << <<0, 11>> >>, FALSE, <<>>, <<>>, "r"), "n12") >>, <<>>, << [name |-> "Inner", n |-> 12] >>),
  (* fields spanning the whole register whose value is NOT the raw integer: signed, Option<enum>, nested *)
  DbgDecl(8, << N(Scalar("inat", 8, 0, "rw"), "s"), N(Fld("f", "optenum", 8, 1, << <<0, 7>> >>, FALSE, <<>>, <<>>, "rw"), "o"),
                N(Fld("f", "nested", 8, 1, << <<0, 7>> >>, FALSE, <<>>, <<>>, "rw"), "n"), N(Scalar("unat", 8, 0, "r"), "u") >>,
          <<EnumNonExh("O8", 8)>>, << [name |-> "Inner", n |-> 8] >>),
  DbgDecl(64, << N(Scalar("inat", 64, 0, "rw"), "s64"), N(Fld("f", "nested", 64, 1, << <<0, 63>> >>, FALSE, <<>>, <<>>, "r"), "n64") >>,
          <<>>, << [name |-> "Inner", n |-> 64] >>),
  DbgDecl(16, << N(Scalar("inat", 16, 0, "rw"), "s16"), N(Fld("f", "optenum", 16, 1, << <<0, 15>> >>, FALSE, <<>>, <<>>, "rw"), "o16") >>,
          <<EnumNonExh("O16", 16)>>, <<>>),
  (* twenty fields: more than any chunking of the field list *)
  DbgDecl(32, [k \in 1..20 |-> N(IF k % 5 = 0 THEN Scalar("bool", 1, k - 1, "rw") ELSE IF k % 7 = 0 THEN Scalar("inat", 8, k, "r")
                                  ELSE Scalar("uarb", (k % 3) + 2, k - 1, "rw"), Name("f", k - 1))], <<>>, <<>>),
  DbgDecl(9, << N(Scalar("uarb", 9, 0, "rw"), "all"), N(Scalar("bool", 1, 8, "rw"), "t"),
                N(Fld("f", "optenum", 1, 1, << <<0, 0>> >>, FALSE, <<>>, <<>>, "rw"), "o1") >>, <<EnumNonExh("O1", 1)>>, <<>>)
  >>

---------------------------------------------------------------------------
(* Q-acc: every field kind under every access specifier (C17); default 0 so  *)
(* that a builder is offered and the builder steps can be probed too         *)
ZeroDef == << <<>> >>
AccAt(mk(_, _), k) == mk(16 * k, <<"r", "w", "rw", "none">>[k + 1])
AccDecl(mk(_, _), enums, nested) ==
  MkDecl(64, ZeroDef, NameFields([k \in 1..4 |-> AccAt(mk, k - 1)]), enums, nested, FALSE)
QAcc == <<
  AccDecl(LAMBDA lo, a : Scalar("bool", 1, lo, a), <<>>, <<>>),
  AccDecl(LAMBDA lo, a : Scalar("uarb", 5, lo, a), <<>>, <<>>),
  AccDecl(LAMBDA lo, a : Scalar("unat", 16, lo, a), <<>>, <<>>),
  AccDecl(LAMBDA lo, a : Scalar("inat", 8, lo + 3, a), <<>>, <<>>),
  AccDecl(LAMBDA lo, a : Fld("f", "enum", 2, 1, << <<lo, lo + 1>> >>, FALSE, <<>>, <<>>, a), <<EnumExh("E2", 2)>>, <<>>),
  AccDecl(LAMBDA lo, a : Fld("f", "optenum", 3, 1, << <<lo, lo + 2>> >>, FALSE, <<>>, <<>>, a), <<EnumNonExh("O3", 3)>>, <<>>),
  AccDecl(LAMBDA lo, a : Fld("f", "nested", 8, 1, << <<lo, lo + 7>> >>, FALSE, <<>>, <<>>, a), <<>>, << [name |-> "Inner", n |-> 8] >>),
  AccDecl(LAMBDA lo, a : ArrFld("uarb", 3, 0, lo, 3, <<4>>, a), <<>>, <<>>),
  AccDecl(LAMBDA lo, a : ArrFld("bool", 1, 0, lo, 5, <<>>, a), <<>>, <<>>),
  AccDecl(LAMBDA lo, a : ListFld("uarb", << <<lo + 9, lo + 10>>, <<lo, lo + 2>> >>, <<>>, <<>>, a), <<>>, <<>>),
  AccDecl(LAMBDA lo, a : ListFld("inat", << <<lo + 12, lo + 15>>, <<lo, lo + 3>> >>, <<>>, <<>>, a), <<>>, <<>>),
  AccDecl(LAMBDA lo, a : ListFld("uarb", << <<lo + 4, lo + 4>>, <<lo, lo>> >>, <<3>>, <<1>>, a), <<>>, <<>>),
  (* names that stress with_/set_ name mangling *)
  MkDecl(64, ZeroDef, << N(Scalar("uarb", 3, 0, "rw"), "with_parity"), N(Scalar("bool", 1, 8, "w"), "ends_with_crc"),
                         N(Scalar("unat", 8, 16, "rw"), "set_point"), N(Scalar("uarb", 4, 32, "rw"), "r#type"),
                         N(ArrFld("uarb", 2, 0, 40, 3, <<>>, "rw"), "with_set_with_") >>, <<>>, <<>>, FALSE)
  >>

---------------------------------------------------------------------------
(* Q-b14: builder layouts for C14 (not necessarily sound: that is the point) *)
B14(W, def, fields) == MkDecl(W, def, fields, <<>>, <<>>, FALSE)
QB14 == <<
  (* complete, disjoint, no default / with default *)
  B14(8, <<>>, << N(Scalar("uarb", 4, 0, "rw"), "a"), N(Scalar("uarb", 3, 4, "rw"), "b"), N(Scalar("bool", 1, 7, "w"), "c") >>),
  B14(8, ZeroDef, << N(Scalar("uarb", 4, 0, "rw"), "a"), N(Scalar("uarb", 3, 4, "rw"), "b"), N(Scalar("bool", 1, 7, "w"), "c") >>),
  (* incomplete: without default no builder, with default builder *)
  B14(8, <<>>, << N(Scalar("uarb", 4, 0, "rw"), "a"), N(Scalar("uarb", 3, 4, "rw"), "b") >>),
  B14(8, ZeroDef, << N(Scalar("uarb", 4, 0, "rw"), "a"), N(Scalar("uarb", 3, 4, "rw"), "b") >>),
  (* overlapping writable fields *)
  B14(8, ZeroDef, << N(Scalar("uarb", 4, 0, "rw"), "a"), N(Scalar("uarb", 4, 3, "rw"), "b") >>),
  B14(8, <<>>, << N(Scalar("unat", 8, 0, "rw"), "a"), N(Scalar("bool", 1, 7, "rw"), "b") >>),
  (* overlapping array elements: adjacent, and only elements two apart *)
  B14(16, ZeroDef, << N(ListFld("uarb", << <<0, 0>>, <<2, 2>> >>, <<3>>, <<2>>, "rw"), "a") >>),
  B14(16, ZeroDef, << N(ListFld("uarb", << <<0, 0>>, <<4, 4>> >>, <<3>>, <<2>>, "rw"), "pair"), N(Scalar("bool", 1, 15, "rw"), "z") >>),
  B14(16, ZeroDef, << N(ListFld("uarb", << <<0, 0>>, <<4, 4>> >>, <<2>>, <<2>>, "rw"), "pair"), N(Scalar("bool", 1, 15, "rw"), "z") >>),
  (* self-overlapping range list *)
  B14(16, ZeroDef, << N(ListFld("unat", << <<0, 3>>, <<2, 5>> >>, <<>>, <<>>, "rw"), "x") >>),
  B14(16, ZeroDef, << N(ListFld("uarb", << <<4, 4>>, <<0, 3>>, <<4, 4>> >>, <<>>, <<>>, "rw"), "x"), N(Scalar("bool", 1, 9, "rw"), "y") >>),
  (* read-only gap: the read-only field fills the hole (still incomplete) / aliases a complete cover (still complete) *)
  B14(8, <<>>, << N(Scalar("uarb", 4, 0, "rw"), "a"), N(Scalar("uarb", 4, 4, "r"), "ro") >>),
  B14(8, <<>>, << N(Scalar("uarb", 4, 0, "rw"), "a"), N(Scalar("uarb", 4, 4, "w"), "b"), N(Scalar("uarb", 3, 2, "r"), "ro") >>),
  B14(8, ZeroDef, << N(Scalar("uarb", 4, 0, "rw"), "a"), N(Scalar("uarb", 4, 4, "r"), "ro") >>),
  (* arbitrary-int base exactly covered / covered up to the storage width only in imagination *)
  B14(12, <<>>, << N(Scalar("unat", 8, 0, "rw"), "a"), N(Scalar("uarb", 4, 8, "rw"), "b") >>),
  B14(12, <<>>, << N(Scalar("unat", 8, 0, "rw"), "a"), N(Scalar("uarb", 3, 8, "rw"), "b") >>),
  B14(24, <<>>, << N(ArrFld("unat", 8, 0, 0, 3, <<>>, "rw"), "bytes") >>),
  (* no writable field at all *)
  B14(8, ZeroDef, << N(Scalar("uarb", 4, 0, "r"), "ro") >>),
  B14(8, <<>>, << N(Scalar("uarb", 4, 0, "r"), "ro") >>),
  (* an array whose ELEMENT's range list overlaps itself although the elements are far apart *)
  B14(32, ZeroDef, << N(ListFld("unat", << <<0, 3>>, <<2, 5>> >>, <<4>>, <<8>>, "rw"), "a") >>),
  B14(32, ZeroDef, << N(ListFld("uarb", << <<0, 1>>, <<3, 3>> >>, <<4>>, <<8>>, "rw"), "a") >>),
  (* bool arrays: their steps must advance the type state like any other field *)
  B14(8, ZeroDef, << N(ArrFld("bool", 1, 0, 0, 4, <<>>, "rw"), "flags"), N(Scalar("uarb", 4, 4, "rw"), "hi") >>),
  B14(8, <<>>, << N(ArrFld("bool", 1, 0, 0, 4, <<>>, "rw"), "flags"), N(Scalar("uarb", 4, 4, "rw"), "hi") >>),
  B14(7, <<>>, << N(Scalar("uarb", 3, 0, "rw"), "lo"), N(ArrFld("bool", 1, 0, 3, 4, <<>>, "rw"), "flags") >>),
  B14(8, ZeroDef, << N(ArrFld("bool", 1, 0, 0, 4, <<>>, "rw"), "flags"), N(Scalar("uarb", 4, 2, "rw"), "mid") >>),
  (* a field that cannot be written does not matter for soundness, even if ITS OWN ranges overlap *)
  B14(8, <<>>, << N(Scalar("uarb", 4, 0, "rw"), "a"), N(Scalar("uarb", 4, 4, "rw"), "b"), N(ListFld("unat", << <<0, 3>>, <<2, 5>> >>, <<>>, <<>>, "r"), "view") >>),
  B14(7, ZeroDef, << N(Scalar("bool", 1, 6, "w"), "t"), N(ListFld("uarb", << <<0, 0>>, <<2, 2>> >>, <<3>>, <<1>>, "none"), "view") >>),
  (* full-width single field *)
  B14(128, ZeroDef, << N(Scalar("unat", 128, 0, "rw"), "all") >>),
  B14(64, ZeroDef, << N(Scalar("unat", 64, 0, "rw"), "all") >>),
  B14(128, <<>>, << N(Scalar("unat", 128, 0, "rw"), "all") >>),
  B14(64, <<>>, << N(Scalar("inat", 64, 0, "w"), "all") >>),
  (* the type-state mask has as many bits as the base: fields that live entirely above bit 16 / 32 / 64 / 96 must advance it *)
  B14(128, <<>>, << N(Scalar("unat", 64, 0, "rw"), "lo"), N(Scalar("unat", 32, 64, "rw"), "mid"), N(Scalar("unat", 32, 96, "rw"), "hi") >>),
  B14(128, ZeroDef, << N(Scalar("unat", 8, 0, "rw"), "a"), N(Scalar("unat", 8, 64, "rw"), "b"), N(Scalar("bool", 1, 127, "rw"), "c") >>),
  B14(128, ZeroDef, << N(Scalar("unat", 8, 64, "rw"), "b"), N(Scalar("uarb", 7, 120, "w"), "c") >>),
  B14(100, ZeroDef, << N(Scalar("unat", 32, 0, "rw"), "a"), N(Scalar("uarb", 4, 96, "rw"), "b"), N(Scalar("uarb", 31, 64, "rw"), "c") >>),
  B14(65, ZeroDef, << N(Scalar("unat", 64, 0, "rw"), "a"), N(Scalar("bool", 1, 64, "rw"), "top") >>),
  B14(65, <<>>, << N(Scalar("unat", 64, 0, "rw"), "a"), N(Scalar("bool", 1, 64, "rw"), "top") >>),
  B14(64, <<>>, << N(Scalar("unat", 32, 0, "rw"), "lo"), N(Scalar("unat", 32, 32, "rw"), "hi") >>),
  B14(64, ZeroDef, << N(Scalar("bool", 1, 31, "rw"), "a"), N(Scalar("bool", 1, 32, "rw"), "b"), N(Scalar("bool", 1, 63, "rw"), "c") >>),
  B14(32, <<>>, << N(Scalar("unat", 16, 0, "rw"), "lo"), N(Scalar("unat", 16, 16, "rw"), "hi") >>),
  B14(128, ZeroDef, << N(ArrFld("unat", 16, 0, 0, 8, <<>>, "rw"), "h"), N(Scalar("bool", 1, 64, "r"), "peek") >>)
  >>

---------------------------------------------------------------------------
(* T-all (thorough tiers): EVERY (lo, hi) of 11 bases as a single-range rw field -- the five native bases contain every       *)
(* (storage, lo, width) combination the code generator can see, the six arbitrary-int ones every relation to N-1.            *)
TallBases == <<8, 16, 32, 64, 128, 7, 9, 24, 33, 65, 127>>
TallKind(w, lo) == IF w \in Native THEN (IF lo % 2 = 0 THEN "unat" ELSE "inat") ELSE IF w = 1 /\ lo % 2 = 0 THEN "bool" ELSE "uarb"
(* one declaration per base holding ALL its single-range fields; the orchestrator splits it into compile units of <= 500 fields *)
TallFields(W) == SetToSeq({Scalar(TallKind(p[1], p[2]), p[1], p[2], "rw") : p \in {q \in (1..W) \X (0..(W - 1)) : q[1] + q[2] <= W}})
QTall == [k \in 1..Len(TallBases) |-> MkDecl(TallBases[k], <<>>, TallFields(TallBases[k]), <<>>, <<>>, FALSE)]

QModel == AllModelDecls

---------------------------------------------------------------------------
CorpusByName(nm) ==
  CASE nm = "star"  -> Renumber(QStar)
    [] nm = "arr"   -> Renumber(QArr)
    [] nm = "nc"    -> Renumber(QNcFixed)
    [] nm = "cust"  -> Renumber(QCust)
    [] nm = "dup"   -> Renumber(QDup)
    [] nm = "base"  -> Renumber(QBase)
    [] nm = "bld"   -> Renumber(QBld)
    [] nm = "dbg"   -> Renumber(QDbg)
    [] nm = "model" -> Renumber(QModel)
    [] nm = "acc"   -> Renumber(QAcc)
    [] nm = "tall"  -> Renumber(QTall)
    [] nm = "b14"   -> Renumber(QB14)

Out == CorpusByName(IOEnv.CORPUS)
ASSUME \A k \in 1..Len(Out) : (Valid(Out[k]) /\ \A j \in 1..Len(Out[k].enums) : EnumValid(Out[k].enums[j])) \/ PrintT(<<"INVALID", k, Out[k]>>)
ASSUME IOEnv.CORPUS = "bld" => \A k \in 1..Len(Out) : BuilderSound(Out[k]) \/ PrintT(<<"INVALID (builder not sound)", k>>)
ASSUME JsonSerialize(IOEnv.OUTFILE, Out)
ASSUME PrintT(<<"CORPUS", IOEnv.CORPUS, Len(Out)>>)

VARIABLE x
Init == x = 0
Next == x' = x
=============================================================================
