---- MODULE MC_Builder ----
EXTENDS Builder
====
